#!/usr/bin/env python3
"""Regenerate MANIFEST.json from the table below (only checks whose module exists are claimed)."""
import json, os

HERE = os.path.dirname(os.path.abspath(__file__))

CHECKS = {
 'C01': dict(cat='model_checking', eng='E3xE1', tech='bounded exhaustive program enumeration x exhaustive exploration of every CPython execution (choice-sequence DFS), runtime-visible => supp-visible',
   text='Every program of the bounded grammar (core statements up to k nodes plus one substituted binding-construct feature) is executed by CPython under every sequence of branch/trip/raise decisions; for every read that succeeded in some execution lint must not report E02/E42 and assist must offer the identifier. Exhaustive within the stated bounds, one-directional oracle so supp over-approximation cannot alarm.',
   note='CPython 3.12 is the reference; shadow-variable instrumentation (same binding construct, same scope) is trusted to track provenance; bounds: k statements, nesting depth, <=2 loop trips, 2 variables.', ref='2 C01'),
 'C02': dict(cat='model_checking', eng='E3xE1', tech='bounded exhaustive program enumeration x exhaustive CPython execution tree; observed (read, binding site) pairs must be among supp alternatives / not flagged unused / in go-to-definition',
   text='Same space restricted to the structured fragment of the property; every observed same-scope (read, site) pair is checked against names_at alternatives, location() and W01/W02.',
   note='as C01; domain filter of the property statement applied syntactically on the IR.', ref='2 C02'),
 'C03': dict(cat='model_checking', eng='E3xE1', tech='bounded exhaustive program enumeration x COMPLETE execution tree under lenient semantics; precision direction (no phantom sites, exact possibly-undefined, never-bound => E02)',
   text='Needs the complete execution tree (decides "on no path"): every alternative supp reports must be observed on some execution, UNDEF iff some execution reaches the read unbound.',
   note='as C01; lenient semantics (pre-bound shadows) so a failing read does not cut paths; try bodies bracketed by raise points at both ends.', ref='2 C03'),
 'C04': dict(cat='model_checking', eng='E2', tech='explicit-state BFS over query histories on the real analysed module, state = generic fingerprint of all memo cells, oracle = same query on a fresh object',
   text='All query histories (to closure of the memo state space) on generated programs and bounded orders on real files; each answer equals the answer of the same query asked first on a fresh object, and equals the per-read view of lint.',
   note='two objects with equal memo fingerprints answer all future queries identically (supp reads no other mutable state).', ref='3'),
 'C05': dict(cat='exploration', eng='E3', tech='exhaustive enumeration of nesting/declaration shapes + complete real corpus, compared with the compiler symbol table (symtable)',
   text='Every read of every corpus file and of every generated nesting of def/lambda/class/comprehension with bind/global/nonlocal choices is compared with symtable.',
   note='symtable of CPython 3.12 is the reference.', ref='4 C05'),
 'C06': dict(cat='exploration', eng='E3', tech='exhaustive enumeration of class hierarchies (bounded classes/bases/attribute kinds) x receivers, compared with CPython __mro__/vars()/instance __dict__',
   text='All hierarchies within the bounds, each executed by CPython for ground truth.', note='CPython is the reference; only source-defined attributes are asked for.', ref='4 C06'),
 'C07': dict(cat='exploration', eng='E3', tech='exhaustive enumeration of directory trees x dotted/relative names, compared with importlib (PathFinder, resolve_name, pkgutil)',
   text='All trees within the bounds over two roots, every dotted and relative name, against importlib.', note='importlib of CPython 3.12 is the reference; no module is executed.', ref='4 C07'),
 'C08': dict(cat='exploration', eng='E3', tech='exhaustive enumeration of texts x every cursor position (generated programs, typing-state mutations, real files), totality oracle',
   text='Every (text, line, col) within the listed spaces gets a well-formed answer or SyntaxError exactly when ast.parse fails.', note='per-call watchdog 20 s is "does not terminate".', ref='4 C08'),
 'C09': dict(cat='model_checking', eng='E2', tech='explicit-state BFS over edit/touch/request histories on a real long-lived Project on a real directory, state = disk versions + cache fingerprint, oracle = fresh Project',
   text='All histories to closure of the (finite) cache state space for every chain of import edge kinds, with and without an import cycle; every request equals the same request on a fresh Project.', note='mtimes set from a logical clock; state abstraction argued in DESIGN 4 C09.', ref='4 C09'),
 'C10': dict(cat='exploration', eng='E3', tech='exhaustive product of binding kind x scope kind x name shape x read/unread, compared with the syntactic exemption rule',
   text='Full product plus real corpus; set of W01/W02 equals the reference rule.', note='reference = the rule of the statement evaluated on the AST.', ref='4 C10'),
 'C11': dict(cat='exploration', eng='E3', tech='exhaustive enumeration of layout variants per binding kind + complete corpus; token at reported position must be the identifier',
   text='Every binding in corpus and generated layouts.', note='tokenize is the reference for "the text at that position".', ref='4 C11'),
 'C12': dict(cat='exploration', eng='E3', tech='exhaustive enumeration of cursor positions x preceding contexts over generated programs and real files; prefix/cleanliness/mark-transparency oracle',
   text='Every cursor at the end of and inside every name/attribute/import name.', note='unmarked reference analysis is computed on a fresh scope per cursor.', ref='4 C12'),
 'C13': dict(cat='exploration', eng='E3', tech='deviation-bounded enumeration of layout choices (<=1/2 away from default) per generated program + corpus vs ast.unparse',
   text='Every layout within the deviation bound is AST-identical to the default and must give the same diagnostics and per-read views.', note='ast.dump equality certifies layouts equivalent.', ref='4 C13'),
 'C14': dict(cat='exploration', eng='E3', tech='exhaustive bounded input enumeration (boundary integers/lengths, value trees, all legal non-minimal forms, all cut points, all byte strings <=2/3 bytes) against a reference codec written from the spec',
   text='Every space is finite and visited completely; reference codec decides validity.', note='mc/refmsgpack.py is trusted to implement the spec; 4 GiB payloads not enumerated.', ref='4 C14'),
 'C15': dict(cat='model_checking', eng='E2+E1', tech='explicit-state search over request sequences on the real client+server joined by an in-memory connection; environment-answer deviations bounded 0..2; real-subprocess conformance runs',
   text='All request sequences up to the bound and all single/double environment faults; each reply equals the in-process API.', note='in-memory connection re-enters Server.run per request (the loop keeps no state between iterations).', ref='4 C15'),
 'C16': dict(cat='model_checking', eng='E1', tech='stateless exploration of all thread interleavings at source-line granularity of supp/remote.py under a controlled scheduler, iterative preemption bounding, plus an unbounded search with state matching for the scenarios whose state space closes; waits with a timeout are choice points; fakes for Popen/Client/time/Lock/Thread; real-subprocess fault points',
   text='All schedules of 2-3 user threads within the preemption bound; exactly one Popen, no handshake exception, every call answered; close/disconnect end the server.', note='line granularity (GIL) is the atomicity model; fakes stand for process launch and connection.', ref='4 C16'),
 'C17': dict(cat='model_checking', eng='E1', tech='exhaustive exploration of every iteration order of every set built inside supp (ChoiceSet), plus a reproducible real-process grid (hash seed x prior allocation, ASLR off)',
   text='All permutations of all sets met by each request; one distinct output allowed, alternatives in source order.', note='every order source in supp is a set (grep); the real-process grid is the safety net.', ref='4 C17'),
}

QUICK_ONLY = set()


def main():
    props = [json.loads(l) for l in open(os.path.join(HERE, 'properties.jsonl'))]
    checks, na = [], []
    for p in props:
        pid = p['id']
        c = CHECKS[pid]
        if not os.path.exists(os.path.join(HERE, 'mc', pid.lower() + '.py')):
            na.append({'property_id': pid, 'reason': 'check not built yet in this round (planned: %s, see DESIGN.md section %s); no claim is made' % (c['eng'], c['ref'])})
            continue
        e = {
            'property_id': pid,
            'quick_cmd': './check %s --tier quick' % pid,
            'thorough_cmd': './check %s --tier thorough' % pid,
            'evidence_file': '/verif/evidence/%s.json' % pid,
            'replay_cmd_template': './check %s --replay {path}' % pid,
            'engine': c['eng'],
            'level_claimed': {'category': c['cat'], 'text': c['text'], 'design_ref': 'DESIGN.md section ' + c['ref']},
            'level_note': c['note'],
            'technique': c['tech'],
        }
        if pid in QUICK_ONLY:
            del e['thorough_cmd']
        checks.append(e)
    m = {
        'version': 1,
        'setup_cmd': 'true',
        'hooks': {
            'guard': 'SUPP_VERIF',
            'enable': 'no source hooks are needed: supp is imported from /repo/supp as it is (PYTHONPATH), seams are module globals replaced by the harness at run time; ./check exports SUPP_VERIF=1 for future guarded hooks',
            'baseline_off_cmd': 'cd /repo && env -u SUPP_VERIF /venv/bin/python -m pytest -ra -q -p no:cacheprovider --timeout=900 --continue-on-collection-errors',
            'source_commits': [],
            'add_only': True,
        },
        'engines': [
            {'name': 'E1', 'path': 'mc/e1.py', 'serves_properties': ['C01', 'C02', 'C03', 'C15', 'C16', 'C17'], 'kind_free_text': 'stateless choice-sequence explorer (replay from start, deviation-bounded DFS) over real code: program decisions, thread switches, set orders, connection answers'},
            {'name': 'E2', 'path': 'mc/e2.py', 'serves_properties': ['C04', 'C09', 'C15'], 'kind_free_text': 'explicit-state BFS over histories on real objects with a generic memo/caches fingerprint as state'},
            {'name': 'E3', 'path': 'mc/progspace.py', 'serves_properties': ['C01', 'C02', 'C03', 'C05', 'C06', 'C07', 'C08', 'C10', 'C11', 'C12', 'C13', 'C14'], 'kind_free_text': 'bounded exhaustive input-space enumerators (programs, hierarchies, trees, layouts, cursors, byte strings)'},
        ],
        'checks': checks,
        'not_applicable': na,
        'notes': 'All checks run the real code from /repo/supp; model = none (direct exploration), references = CPython, symtable, importlib, a spec-derived MessagePack codec, a fresh Project, a sequential run. Known findings: /verif/known_findings.json. Seeded changes: /verif/seeded/.',
    }
    with open(os.path.join(HERE, 'MANIFEST.json'), 'w') as f:
        json.dump(m, f, indent=1)
        f.write('\n')
    print('claimed:', [c['property_id'] for c in checks])
    print('not_applicable:', [x['property_id'] for x in na])


if __name__ == '__main__':
    main()
