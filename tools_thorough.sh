#!/bin/sh
# run every thorough tier once, one after the other; one summary line per check (used through `vp run --with-repo`)
cd "$(dirname "$0")"
for c in C05 C10 C11 C14 C17 C15 C12 C04 C09 C02 C03 C01 C06 C16 C08 C13 C07; do
  start=$(date +%s)
  out=$(./check $c --tier thorough 2>&1); rc=$?
  echo "$c exit=$rc $(( $(date +%s) - start ))s $(echo "$out" | grep '^property' | sed 's/.*evaluations=/evaluations=/')"
  echo "$out" | grep "^VIOLATION\|HARNESS\|  signature" | head -8
done
