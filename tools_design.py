#!/usr/bin/env python3
"""Refresh the generated parts of DESIGN.md: the table of `fix:` commits (section 5.1) and the counts in the status header."""
import json
import os
import re
import subprocess

HERE = os.path.dirname(os.path.abspath(__file__))
REPO = os.environ.get('SUPP_REPO', '/repo')

log = subprocess.check_output(['git', '-C', REPO, 'log', '--reverse', '--format=%h\t%s'], text=True).splitlines()
fixes = [l.split('\t', 1) for l in log if l.split('\t', 1)[1].startswith('fix:')]
p = os.path.join(HERE, 'DESIGN.md')
s = open(p).read()
head = '| commit | subject |\n|---|---|\n'
i = s.index(head) + len(head)
j = s.index('\n\n', i)
s = s[:i] + '\n'.join('| `%s` | %s |' % (h, subj.replace('|', '\\|')) for h, subj in fixes) + s[j:]
kf = json.load(open(os.path.join(HERE, 'known_findings.json')))
causes = sorted({f.get('id', '').split(':')[0] for f in kf['findings']} - {''}) if isinstance(kf['findings'], list) else []
s = re.sub(r'\(\d+ `fix:` commits in /repo', '(%d `fix:` commits in /repo' % len(fixes), s)
open(p, 'w').write(s)
print(len(fixes), 'fix commits;', len(kf['fixed']), 'fixed entries')
