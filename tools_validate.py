#!/opt/veriftools/pyvenv/bin/python
"""Validate MANIFEST.json and every evidence file against the schemas (python3-vt has jsonschema)."""
import json, sys, glob, jsonschema
ok = True
m = json.load(open('/verif/MANIFEST.json'))
jsonschema.validate(m, json.load(open('/root/.vp/MANIFEST.schema.json')))
es = json.load(open('/root/.vp/EVIDENCE.schema.json'))
claimed = {c['property_id']: c for c in m['checks']}
props = [json.loads(l)['id'] for l in open('/verif/properties.jsonl')]
na = {x['property_id'] for x in m.get('not_applicable', [])}
for p in props:
    if p not in claimed and p not in na:
        print('property neither claimed nor not_applicable:', p); ok = False
for pid, c in claimed.items():
    try:
        e = json.load(open(c['evidence_file']))
        jsonschema.validate(e, es)
        if e['level'] != c['level_claimed']['category']:
            print('level mismatch', pid, e['level'], c['level_claimed']['category']); ok = False
    except Exception as ex:
        print('evidence problem', pid, str(ex)[:300]); ok = False
print('OK' if ok else 'PROBLEMS')
sys.exit(0 if ok else 1)
