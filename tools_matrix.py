#!/usr/bin/env python3
"""Write /verif/SEEDED.md: which checks catch which seeded changes (from seeded/*/meta.json)."""
import glob
import json
import os

HERE = os.path.dirname(os.path.abspath(__file__))
rows = []
for d in sorted(glob.glob(os.path.join(HERE, 'seeded', '*'))):
    mp = os.path.join(d, 'meta.json')
    if not os.path.exists(mp):
        continue
    m = json.load(open(mp))
    name = os.path.basename(d)
    first = ''
    for line in (m.get('needs_to_manifest') or '').splitlines():
        line = line.strip()
        if line and not line.startswith('#'):
            first = line
            break
    diff = open(os.path.join(d, 'patch.diff')).read()
    files = sorted({l[6:] for l in diff.splitlines() if l.startswith('+++ b/')})
    det = m.get('detected_by', [])
    sigs = []
    for c in det:
        sigs += m['checks'][c]['signatures'][:2]
    rows.append((name, m.get('property'), ', '.join(files), 'yes' if m.get('confirmed') else '?', ', '.join(det) or '**MISSED**', '; '.join(s for s in sigs[:3] if not s.startswith(('assist at', 'location at')))))
with open(os.path.join(HERE, 'SEEDED.md'), 'w') as f:
    f.write('# Seeded property-breaking changes and the checks that catch them\n\n')
    f.write('Each change was written by a fresh sub-agent that saw only the text of one property and its own scratch worktree; '
            'it passes the 175 existing tests and comes with a demonstration (`seeded/<id>/demo.py`: exit 0 on the pristine tree, 1 with the patch; '
            'run it with PYTHONPATH pointing at the patched checkout). `tools_seed.py` re-confirmed tests+demo in a scratch worktree, applied the patch to /repo, '
            'ran the quick check(s) and undid it. "detected by" lists the checks that exit 1 on the patched tree.\n\n')
    f.write('| seed | property | touches | confirmed | detected by (quick tier) | first signatures |\n|---|---|---|---|---|---|\n')
    for r in rows:
        f.write('| %s | %s | %s | %s | %s | %s |\n' % r)
    f.write('\n%d seeded changes, %d detected by the quick tier of the property\'s own check (or a sibling check where noted).\n' % (
        len(rows), sum(1 for r in rows if 'MISSED' not in r[4])))
print(open(os.path.join(HERE, 'SEEDED.md')).read()[-1500:])
