#!/bin/sh
# tools_fix.sh <message-file>: commit the working-tree change of /repo as one fix, only if the unedited suite passes
cd /repo || exit 2
out=$(/venv/bin/python -m pytest -q -p no:cacheprovider 2>&1 | tail -1)
echo "$out"
case "$out" in
  "175 passed"*) git commit -qaF "$1" && git log --oneline | head -1 ;;
  *) echo "NOT COMMITTED: tests do not pass"; exit 1 ;;
esac
