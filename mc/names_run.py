"""Enumeration driver shared by C01, C02, C03."""
import json

from .common import Part, HarnessError
from . import progspace as ps
from . import features
from . import namecheck as nc

_SPACE = None


def leaf_paths(prog, path=()):
    """paths to leaf statements (replaceable holes)"""
    for i, st in enumerate(prog):
        k = st[0]
        p = path + (i,)
        if k in ('bind', 'use', 'mov', 'callf'):
            yield p
        elif k in ('if', 'while'):
            for q in leaf_paths(st[1], p + (1,)):
                yield q
            for q in leaf_paths(st[2], p + (2,)):
                yield q
        elif k == 'for':
            for q in leaf_paths(st[2], p + (2,)):
                yield q
            for q in leaf_paths(st[3], p + (3,)):
                yield q
        elif k == 'with':
            for q in leaf_paths(st[2], p + (2,)):
                yield q
        elif k == 'def':
            for q in leaf_paths(st[1], p + (1,)):
                yield q
        elif k == 'try':
            for j in (2, 4, 5, 6):
                for q in leaf_paths(st[j], p + (j,)):
                    yield q


def replace_at(prog, path, new):
    i = path[0]
    if len(path) == 1:
        return prog[:i] + (new,) + prog[i + 1:]
    st = prog[i]
    j = path[1]
    sub = replace_at(st[j], path[2:], new)
    st = st[:j] + (sub,) + st[j + 1:]
    return prog[:i] + (st,) + prog[i + 1:]


def in_def(prog, path):
    node = prog
    p = list(path)
    while len(p) > 1:
        st = node[p[0]]
        if st[0] == 'def':
            return True
        node = st[p[1]]
        p = p[2:]
    return False


def feature_programs(kskel, names=None):
    seen = set()
    skels = [()] + [p for n in range(1, kskel + 1) for p in ps.blocks(n, 2, False, False, False)]
    for fname in sorted(features.FEATURES):
        if names and fname not in names:
            continue
        f = features.FEATURES[fname]
        for var in ps.V:
            for sk in (skels if not f.get('alone') else [()]):
                if not sk:
                    cands = [(('feat', fname, var),)]
                else:
                    cands = []
                    for path in leaf_paths(sk):
                        if f.get('toplevel') and len(path) > 1:
                            continue
                        cands.append(replace_at(sk, path, ('feat', fname, var)))
                    # also: feature appended / prepended to the skeleton
                    cands.append(sk + (('feat', fname, var),))
                    cands.append((('feat', fname, var),) + sk)
                for c in cands:
                    if c not in seen:
                        seen.add(c)
                        yield c


def try_family():
    """try statements whose parts are a leaf or a one-armed if (with or without a following leaf): body, handler, else, finally"""
    L = [('bind', 'a'), ('use', 'a'), ('mov', 'a', 'b')]
    B = [('bind', 'a'), ('mov', 'a', 'b')]
    P = [(l,) for l in L] + [(('if', (l,), ()),) for l in B] + [(('if', (('bind', 'a'),), ()), ('use', 'a'))]
    OPT = [()] + P
    for body in P:
        for fb in P:
            for tail in (('use', 'a'), ('use', 'b')):
                yield (('try', 'nohandler', body, None, (), (), fb), tail)
        for hb in P:
            for eb in OPT:
                for fb in OPT:
                    if not eb and not fb and len(body) == 1 and len(hb) == 1 and body[0][0] != 'if' and hb[0][0] != 'if':
                        continue          # the k<=4 core has these
                    for rz in ('both', 'first', 'last'):
                        for hn in (None, 'b'):
                            yield (('try', rz, body, hn, hb, eb, fb), ('use', 'a'))


def loops3_family():
    """three nested loops with a leaf in the innermost body, after the innermost loop and after the middle loop,
    with and without the variables bound before (definitions carried by the OUTER back edge into inner loops)"""
    L = [('bind', 'a'), ('use', 'a'), ('mov', 'a', 'b'), ('use', 'b'), ('mov', 'b', 'a')]

    def loop(kind, body):
        return ('for', 'a', body, ()) if kind == 'for' else ('while', body, ())
    import itertools
    for k1, k2, k3 in itertools.product(('for', 'while'), repeat=3):
        for l3, l2, l1 in itertools.product(L, repeat=3):
            inner = loop(k3, (l3,))
            mid = loop(k2, (inner, l2))
            outer = loop(k1, (mid, l1))
            yield (outer,)
            yield (('bind', 'b'), outer, ('use', 'a'))
    # two loops deep with a second loop inside the inner body
    for k1, k2 in itertools.product(('for', 'while'), repeat=2):
        for l3, l2, l1 in itertools.product(L, repeat=3):
            inner = loop(k2, (loop('while', (l3,)), loop('for', (('use', 'b'),)), l2))
            yield (loop(k1, (inner, l1)),)


def feature_pairs():
    """two features in one program (the second one next to the first): every ordered pair, variable a then b"""
    names = sorted(features.FEATURES)
    for f1 in names:
        for f2 in names:
            if features.FEATURES[f1].get('alone') or features.FEATURES[f2].get('alone'):
                continue        # must be the first statement of the module
            yield (('bind', 'a'), ('bind', 'b'), ('feat', f1, 'a'), ('feat', f2, 'a'))
            yield (('feat', f1, 'a'), ('feat', f2, 'b'), ('use', 'a'), ('use', 'b'))


def space(tier):
    """The full, deterministic list of programs for a tier: (origin, prog)."""
    global _SPACE
    if _SPACE and _SPACE[0] == tier:
        return _SPACE[1]
    out = []
    if tier == 'quick':
        kcore, dcore, kctl, kfeat = 4, 2, 3, 2
    else:
        kcore, dcore, kctl, kfeat = 5, 2, 4, 3
    core = set()
    for p in ps.programs(kcore, dcore, ctl=False):
        core.add(p)
        out.append(('core', p))
    if tier != 'quick':
        for p in ps.programs(4, 3, ctl=False):
            if p not in core:
                core.add(p)
                out.append(('core-d3', p))
    # functions with a mid-block return need 5-6 nodes to show a definition kept alive past the return
    for body in ps.blocks(4, 1, False, True, False):
        if ps.has_read(body) and any(x[0] == 'ret' for x in ps.walk(body)):
            out.append(('ret5', (('def', body), ('callf',))))
    # try statements need 5-7 nodes to put a binding into body, handler, else and finally at once
    for p in try_family():
        if p not in core:
            out.append(('try6', p))
    for i, p in enumerate(loops3_family()):
        if p not in core and (tier != 'quick' or i % 4 == 0):     # quick: every 4th
            out.append(('loops3', p))
    for p in ps.programs(kctl, 2, ctl=True):
        if p not in core:
            out.append(('ctl', p))
    # features with two or more iteration oracles multiply the execution tree by 9 or more: skeletons one node smaller
    light = {n for n, f in features.FEATURES.items() if n.startswith(('comp-in-', 'plain-comp-in-', 'self-rhs-')) or sum(l.count('_it(') for l in f['instr']) >= 2}
    for p in feature_programs(kfeat, names=set(features.FEATURES) - light):
        out.append(('feat', p))
    # the expression-position families are about the construct itself: skeletons one node smaller
    for p in feature_programs(kfeat - 1, names=light):
        out.append(('feat', p))
    for i, p in enumerate(feature_pairs()):
        if tier != 'quick' or i % 4 == 0:      # quick: every 4th pair
            out.append(('feat2', p))
    _SPACE = (tier, out)
    return out


def unit(arg):
    tier, prop, lo, hi = arg
    sp = space(tier)
    part = Part()
    for origin, prog in sp[lo:hi]:
        part.count('evaluations')
        part.count('programs')
        part.count('programs_' + origin)
        try:
            vs = nc.check_program(prog, want=(prop,), part=part)
        except ps.TreeTooLarge:
            # more executions than the per-program cap: the program is skipped and reported as a cap, never silently
            part.count('programs_skipped_execution_tree_too_large')
            continue
        coarse = coarse_cause(prog)
        for p, sig, what, ctx in vs:
            if p != prop:
                continue
            if coarse and p in ('C02', 'C03'):
                sig = '%s:program-with-%s' % (sig.split(':')[0], coarse)
            part.violation(sig, what + '\n--- program ---\n' + ctx['text'], nc.witness(prog))
    if sp[lo:hi]:
        part.outcome(lo)
    return part


def coarse_cause(prog):
    for st in ps.walk(prog):
        if st[0] == 'feat' and features.FEATURES[st[1]].get('coarse'):
            return features.FEATURES[st[1]]['coarse']
    return None


def run_names(ctx, prop):
    ctx.level = 'model_checking'
    sp = space(ctx.tier)
    n = len(sp)
    step = 40
    units = [(ctx.tier, prop, lo, min(n, lo + step)) for lo in range(0, n, step)]
    ctx.pmap(unit, ctx.shuffled(units), chunksize=1)
    c = ctx.counters
    if c['programs'] != n:
        raise HarnessError('enumerated %d programs but checked %d' % (n, c['programs']))
    ex = sp[len(sp) // 3][1]
    ctx.sample({'origin': sp[len(sp) // 3][0], 'ir': repr(ex), 'plain': ps.render(ex, 'plain').text,
                'instrumented_strict': ps.render(ex, 'strict').text})
    fx = [p for o, p in sp if o == 'feat']
    if fx:
        ctx.sample({'origin': 'feat', 'plain': ps.render(fx[len(fx) // 2], 'plain').text})
    ctx.coverage.update({
        'programs': n,
        'states': int(c['exec_tree_nodes']) + int(c['executions']),
        'transitions': int(c['exec_tree_nodes']),
        'traces_validated_against_impl': int(c['executions']),
        'disagreements_checked': int(c['violations_raw']),
        'rule': 'every program of the bounded grammar (core k/d bounds, control-flow leaves, one substituted feature) '
                'and EVERY CPython execution of it (branch outcomes, 0..2 loop trips, raise decisions); distinct_nontrivial = programs '
                'with a read that has >=2 reaching sites or a maybe-unbound path',
        'space': {o: int(c['programs_' + o]) for o in ('core', 'core-d3', 'ret5', 'try6', 'loops3', 'ctl', 'feat', 'feat2') if c['programs_' + o]},
        'features': sorted(features.FEATURES),
        'reads': int(c['reads']),
        'checked': {k: int(v) for k, v in c.items() if k.startswith('c0')},
        'skipped_crashes_counted_for_C08': {k: int(v) for k, v in c.items() if k.endswith('_crashes')},
    })
    if c['programs_skipped_execution_tree_too_large']:
        ctx.caps_hit.append('%d programs have more than 20000 executions (two iteration oracles inside nested loops) and were skipped' % c['programs_skipped_execution_tree_too_large'])
    ctx.assumptions += [
        'CPython %s executing the shadow-instrumented rendering is the ground truth; the shadow of a variable is bound by the same kind of construct in the same scope' % '3.12',
        'bounds: statements per program, nesting depth 2 (3 for k<=4 on thorough), two variables a/b plus f, loops at most 2 trips, at most one feature per program',
        'out of domain as the property says: match, PEP 695, except*, del, exec/eval/globals()/locals()/setattr',
    ]


def replay_names(w, prop):
    prog = nc.to_tuple(w['prog'])
    coarse = coarse_cause(prog)
    out = []
    for p, sig, what, _ctx in nc.check_program(prog, want=(prop,)):
        if p == prop:
            if coarse and p in ('C02', 'C03'):
                sig = '%s:program-with-%s' % (sig.split(':')[0], coarse)
            out.append((sig, what))
    return out
