"""C04 - answers do not depend on which positions were queried before.

E2 (explicit-state BFS) over query histories on ONE analysed module (one SourceScope as produced by
extract_scope).  Events: query(i) for every read i (names_at + EvalCtx.declarations + evaluate).
State: generic fingerprint of everything reachable from the scope (all memo cells included).
Oracle: the observation of every transition equals the observation of the same query asked FIRST on
a fresh object; and real lint()/location() on the text agree with those fresh views.

Real files (hundreds of reads): bounded, differential - four whole-file query orders on fresh scopes
must agree with each other, and with true fresh-first views on every 25th read.
Project-level: request histories on one long-lived Project (closure by BFS) against a fresh Project.
"""
import os
import json
import glob

from .common import Part, HarnessError, REPO, global_memo
from .common import reset_global_memo as _reset_memo
from . import e2
from . import progspace as ps
from . import namecheck as nc

import supp.scope
from supp.util import Source, get_name_usages, np
from supp.nast import extract_scope
from supp.evaluator import EvalCtx
from supp.name import MultiName, UndefinedName, RuntimeName
from supp.linter import lint
from supp.assistant import location, assist
from supp.project import Project


def reset_global_memo():
    _reset_memo()


def canon_name(n):
    if n is None:
        return None
    if isinstance(n, MultiName):
        return ['M'] + sorted(canon_name(x) for x in n.alt_names)
    if isinstance(n, UndefinedName):
        return ['U']
    if isinstance(n, RuntimeName):
        return ['R', n.name]
    return [type(n).__name__, n.name, list(getattr(n, 'declared_at', ()) or ())]


def canon_decl(r):
    if isinstance(r, list):
        return sorted(canon_decl(x) for x in r)
    return [type(r).__name__, getattr(r, 'name', None), list(getattr(r, 'declared_at', ()) or ()), getattr(r, 'filename', None)]


class Module(object):
    """one analysed module: fresh scope + the list of its reads"""

    def __init__(self, text, filename, project=None, attrs=True):
        reset_global_memo()
        self.project = project or Project([nc.PROJECT_DIR])
        self.source = Source(text, filename)
        self.scope = extract_scope(self.source, self.project)
        import ast as _ast
        self.reads = [n for n in get_name_usages(self.source.tree) if hasattr(n, 'flow')]
        # attribute reads are positions users query as well (obj.attr|)
        if attrs:
            self.reads += sorted((n for n in _ast.walk(self.source.tree) if isinstance(n, _ast.Attribute) and isinstance(n.ctx, _ast.Load)),
                                 key=lambda n: (n.end_lineno, n.end_col_offset))

    def query(self, i):
        n = self.reads[i]
        ctx = EvalCtx(self.project)
        if not hasattr(n, 'id'):
            # attribute access: what location() and assist() compute for it
            try:
                decl = [canon_decl(x) for x in ctx.declarations(n, [])]
                v = ctx.evaluate(n)
                attrs = None
                if v is not None:
                    attrs = sorted(a for a in v.attr_list(ctx) if not a.startswith('__'))
                    attrs = attrs if len(attrs) < 12 else [len(attrs), hash_list(attrs)]
                return json.dumps(['attr', 0, '', decl, type(v).__name__, attrs])
            except RecursionError:
                return json.dumps(['attr', 0, '', 'RecursionError', None, None])
        names = n.flow.names_at(np(n))
        view = canon_name(names.get(n.id))
        visible = sorted(k for k in names if not k.startswith('__'))
        try:
            decl = [canon_decl(x) for x in ctx.declarations(n, [])]
        except RecursionError:
            decl = 'RecursionError'
        attrs = None
        try:
            v = ctx.evaluate(n)
            ev = type(v).__name__
            if v is not None:
                attrs = sorted(a for a in v.attr_list(ctx) if not a.startswith('__'))
                attrs = attrs if len(attrs) < 12 else [len(attrs), hash_list(attrs)]
        except RecursionError:
            ev = 'RecursionError'
        return json.dumps([view, len(visible), hash_list(visible), decl, ev, attrs])

    def state(self):
        bs, names = global_memo()
        memo = e2.runtime_memo_summary(names)
        return e2.fingerprint([self.scope, memo], opaque=[bs])


def hash_list(xs):
    import hashlib
    return hashlib.md5('\0'.join(xs).encode()).hexdigest()[:8]


def check_text(text, part, max_states=400, max_depth=None):
    """BFS to closure over all query histories of one small module -> list of (sig, what)."""
    out = []
    m0 = Module(text, nc.FILE)
    n = len(m0.reads)
    if n == 0:
        return out
    ref = [Module(text, nc.FILE).query(i) for i in range(n)]

    def build(hist):
        m = Module(text, nc.FILE)
        obs = None
        for i in hist:
            obs = m.query(i)
        return m, obs

    seen_bad = set()

    def on_transition(hist, ev, obs):
        if obs != ref[ev] and ev not in seen_bad:
            seen_bad.add(ev)
            node = m0.reads[ev]
            field = diff_field(obs, ref[ev])
            out.append(('history-dependent:%s' % field,
                        'read `%s` at %s answers %s after query history %s but %s when asked first\n--- source ---\n%s' % (
                            getattr(node, 'id', None) or '.' + node.attr, np(node), obs, [list(np(m0.reads[i])) for i in hist], ref[ev], text),
                        {'kind': 'text', 'text': text}))

    s = e2.Search(build, list(range(n)), lambda m: m.state(), max_states=max_states, max_depth=max_depth).run(on_transition)
    part.count('states', s.states)
    part.count('transitions', s.transitions)
    part.count('modules_closed' if not s.capped else ('modules_depth_bounded' if s.depth_limited and s.states < max_states else 'modules_capped'))
    part.counters['max_states_one_module'] = max(part.counters['max_states_one_module'], s.states)
    part.counters['max_depth'] = max(part.counters['max_depth'], s.max_depth)
    # lint (whole-file walk on its own scope) must agree with the fresh per-read view
    try:
        L = lint(Project([nc.PROJECT_DIR]), text, nc.FILE)
    except Exception:
        part.count('lint_crashes')
        L = None
    if L is not None:
        e02 = {(x[2], x[3]) for x in L if x[0] == 'E02'}
        for i, node in enumerate(m0.reads):
            if not hasattr(node, 'id'):
                continue
            fresh_missing = json.loads(ref[i])[0] is None
            if (np(node) in e02) != fresh_missing:
                out.append(('lint-vs-single-query:E02',
                            'lint %s E02 for `%s` at %s but a single fresh query finds the name %s\n--- source ---\n%s' % (
                                'reports' if np(node) in e02 else 'does not report', node.id, np(node), 'missing' if fresh_missing else 'visible', text),
                            {'kind': 'text', 'text': text}))
                break
    return out


def diff_field(a, b):
    try:
        a, b = json.loads(a), json.loads(b)
        for i, f in enumerate(('alternatives', 'visible-count', 'visible-names', 'declarations', 'value', 'attributes')):
            if a[i] != b[i]:
                return f
    except Exception:
        pass
    return 'answer'


# ------------------------------------------------------------------ real files: bounded differential orders

def orders(n, reads):
    fwd = list(range(n))
    rev = fwd[::-1]
    inter = fwd[1::2] + fwd[0::2]
    depth = sorted(fwd, key=lambda i: (-reads[i].col_offset, i))    # deepest indentation first = inside-out
    return [('forward', fwd), ('reverse', rev), ('odd-then-even', inter), ('inside-out', depth)]


def check_file(path, part):
    out = []
    text = open(path, encoding='utf-8').read()
    attrs = len(text) < 3000
    m0 = Module(text, path, attrs=attrs)
    n = len(m0.reads)
    answers = {}
    for name, order in orders(n, m0.reads):
        m = Module(text, path, attrs=attrs)
        ans = [None] * n
        for i in order:
            ans[i] = m.query(i)
            part.count('transitions')
        answers[name] = ans
        part.count('states', n)
    base = answers['forward']
    for name, ans in answers.items():
        for i in range(n):
            if ans[i] != base[i]:
                node = m0.reads[i]
                out.append(('order-dependent:%s:%s' % (name, diff_field(ans[i], base[i])),
                            '%s: read `%s` at %s answers differently in %s order than in forward order:\n %s\n %s' % (
                                os.path.basename(path), getattr(node, 'id', None) or '.' + node.attr, np(node), name, ans[i][:300], base[i][:300]),
                            {'kind': 'file', 'path': path}))
                break
    step = 25
    for i in range(0, n, step):
        fresh = Module(text, path, attrs=attrs).query(i)
        part.count('transitions')
        if fresh != base[i]:
            node = m0.reads[i]
            out.append(('history-dependent:file:%s' % diff_field(base[i], fresh),
                        '%s: read `%s` at %s answers %s in a forward whole-file walk but %s when asked first' % (
                            os.path.basename(path), getattr(node, 'id', None) or '.' + node.attr, np(node), base[i][:300], fresh[:300]),
                        {'kind': 'file', 'path': path}))
            break
    part.count('files_bounded')
    return out


# ------------------------------------------------------------------ project-level request histories

MLOOP = '''\
import m2
class K(object):
    def a(self):
        self.t = 1
        return self
    def b(self):
        for i in range(3):
            if i:
                v = w
            w = i
        self.u = v
        return v
def make():
    return K()
val = 0
while val:
    if val:
        other = val
    val = make()
'''

REQS_LOOP = [
    ('assist', 'import mloop\nmloop.', (2, 6)),
    ('assist', 'import mloop\nmloop.K().', (2, 10)),
    ('assist', 'from mloop import make\nmake().', (2, 7)),
    ('location', 'from mloop import *\nval\n', (2, 3)),
    ('location', 'import mloop\nmloop.K().a().u\n', (2, 15)),
    ('lint', 'from mloop import *\nprint(val, other, K)\n', None),
    ('assist', 'from mloop import val\nval.', (2, 4)),
]


REQS_CLS = [
    ('assist', 'import mcls\nmcls.Shape().', (2, 13)),
    ('assist', 'import mcls\nmcls.Circle().', (2, 14)),
    ('assist', 'import mcls\nmcls.Ring().', (2, 12)),
    ('assist', 'from mcls import Shape\nShape.', (2, 6)),
    ('location', 'from mcls import Ring\nRing().area\n', (2, 11)),
    ('assist', 'from mcls import *\nRing().hole().', (2, 14)),
]


MASSIGN = '''\
class Bar(object):
    def bar_method(self): pass
class Foo(object):
    def make(self):
        return Bar()
x = Foo().make()
x.attr = 1
'''
REQS_ASSIGN = [
    ('assist', 'from massign import x\nx.', (2, 2)),
    ('assist', 'from massign import Foo\nFoo().', (2, 6)),
    ('assist', 'from massign import Bar\nBar().', (2, 6)),
    ('location', 'from massign import x\nx.attr\n', (2, 6)),
]
# results of calls that reach themselves again through a conditionally bound name (evaluation is cut short by the
# recursion guard somewhere; where, depends on which function was asked about first)
MCALL = '''\
class A(object):
    def foo(self): pass
class B(object):
    def bar(self): pass
def g():
    return x
def f():
    return x
def h():
    if cond:
        return y
    return f()
if cond:
    x = A()
else:
    x = g()
if cond:
    y = f()
elif cond2:
    y = B()
else:
    y = h()
'''
REQS_CALL = [
    ('assist', 'import mcall\nmcall.f().', (2, 10)),
    ('assist', 'import mcall\nmcall.g().', (2, 10)),
    ('assist', 'import mcall\nmcall.h().', (2, 10)),
    ('assist', 'from mcall import y\ny.', (2, 2)),
    ('location', 'from mcall import g\ng().foo\n', (2, 7)),
]
# evaluations cut short by a recursion guard whose truncated result is then memoised (known findings F-guardmemo): which
# of two mutually dependent values is complete depends on which one was asked for first
MGUARD1 = '''\
class Registry:
    def __init__(self):
        self.items = []
    def register(self, f):
        return f
registry = Registry()
class Handler:
    @registry.register
    def handle(self):
        self.done = True
registry.extra = 1
'''
REQS_GUARD1 = [('assist', 'import mguard1\nmguard1.Handler().', (2, 18)), ('assist', 'import mguard1\nmguard1.registry.', (2, 17)),
               ('location', 'import mguard1\nmguard1.registry.extra\n', (2, 22))]
MGUARD2 = '''\
class A1:
    ya1 = 1
class B1:
    xb1 = 1
class A0:
    ya = 1
    other = B1()
class B0:
    xb = 2
    other = A1()
class W:
    def __init__(self):
        self.cur = A0()
        self.prev = B0()
    def swap(self):
        self.cur = self.prev.other
        self.prev = self.cur.other
w = W()
'''
REQS_GUARD2 = [('assist', 'import mguard2\nmguard2.w.cur.', (2, 14)), ('assist', 'import mguard2\nmguard2.w.prev.', (2, 15))]
MGUARD3 = '''\
class A:
    x = 1
while cond():
    class B(A):
        y = 2
    class A(B):
        z = 3
class D(A):
    pass
'''
REQS_GUARD3 = [('assist', 'import mguard3\nmguard3.D.', (2, 10)), ('assist', 'import mguard3\nmguard3.B.', (2, 10)), ('location', 'import mguard3\nmguard3.B.z\n', (2, 11))]
CYC_A = 'from cycb import *\nclass A(object):\n    def am(self): pass\n'
CYC_B = 'from cyca import *\nfrom cycleaf import *\nclass B(object):\n    def bm(self): pass\n'
CYC_LEAF = 'class Leaf(object):\n    def lm(self): pass\n'
# a cycle of three, two of its members importing a module outside the cycle AFTER the import that closes the cycle
CYC3 = {'cyc3a': 'from cyc3b import *\nfrom cycleaf import *\nclass A3(object): pass\n',
        'cyc3b': 'from cyc3c import *\nfrom cycleaf import *\nclass B3(object): pass\n',
        'cyc3c': 'from cyc3a import *\nclass C3(object): pass\n'}
REQS_CYCLE3 = [
    ('assist', 'import cyc3a\ncyc3a.', (2, 6)),
    ('assist', 'import cyc3b\ncyc3b.', (2, 6)),
    ('assist', 'import cyc3c\ncyc3c.', (2, 6)),
    ('lint', 'from cyc3b import *\nprint(A3, B3, C3, Leaf)\n', None),
]
REQS_CYCLE = [
    ('assist', 'import cyca\ncyca.', (2, 5)),
    ('assist', 'import cycb\ncycb.', (2, 5)),
    ('lint', 'from cycb import *\nprint(A, B)\n', None),
    ('lint', 'from cyca import *\nprint(A, B, Leaf)\n', None),
    ('location', 'from cycb import Leaf\nLeaf\n', (2, 4)),
]


def project_search(part, which='loop'):
    import tempfile
    import shutil
    out = []
    REQS = {'loop': REQS_LOOP, 'cls': REQS_CLS, 'assign': REQS_ASSIGN, 'cycle': REQS_CYCLE, 'call': REQS_CALL, 'cycle3': REQS_CYCLE3, 'guard1': REQS_GUARD1, 'guard2': REQS_GUARD2, 'guard3': REQS_GUARD3}[which]
    root = tempfile.mkdtemp(prefix='c04proj')
    try:
        open(os.path.join(root, 'mloop.py'), 'w').write(MLOOP)
        open(os.path.join(root, 'mcls.py'), 'w').write(MCLS)
        open(os.path.join(root, 'massign.py'), 'w').write(MASSIGN)
        open(os.path.join(root, 'mcall.py'), 'w').write(MCALL)
        for k, v in (('mguard1', MGUARD1), ('mguard2', MGUARD2), ('mguard3', MGUARD3)):
            open(os.path.join(root, k + '.py'), 'w').write(v)
        open(os.path.join(root, 'cyca.py'), 'w').write(CYC_A)
        open(os.path.join(root, 'cycb.py'), 'w').write(CYC_B)
        open(os.path.join(root, 'cycleaf.py'), 'w').write(CYC_LEAF)
        for k, v in CYC3.items():
            open(os.path.join(root, k + '.py'), 'w').write(v)
        shutil.copy(os.path.join(nc.PROJECT_DIR, 'm2.py'), root)
        x = os.path.join(root, 'x.py')

        def req(P, r):
            kind, src, pos = r
            try:
                with P.check_changes():
                    if kind == 'assist':
                        return json.dumps(list(assist(P, src, pos, x)))
                    if kind == 'location':
                        return json.dumps(location(P, src, pos, x))
                    return json.dumps([list(t[:4]) for t in lint(P, src, x)])
            except RecursionError:
                return 'RecursionError'

        def build(hist):
            reset_global_memo()
            P = Project([root])
            obs = None
            for i in hist:
                obs = req(P, REQS[i])
            return P, obs

        ref = []
        for r in REQS:
            reset_global_memo()
            ref.append(req(Project([root]), r))
        bad = set()

        def on_transition(hist, ev, obs):
            if obs != ref[ev] and ev not in bad:
                bad.add(ev)
                out.append(('project-history-dependent:%s:%s' % (which, REQS[ev][0]),
                            'request %r answers %s after request history %s on one Project but %s on a fresh Project' % (
                                REQS[ev], obs[:300], hist, ref[ev][:300]),
                            {'kind': 'project', 'which': which}))

        s = e2.Search(build, list(range(len(REQS))), lambda P: e2.fingerprint([P, e2.runtime_memo_summary(global_memo()[1])], opaque=[global_memo()[0]]), max_states=600).run(on_transition)
        part.count('states', s.states)
        part.count('transitions', s.transitions)
        part.count('project_states', s.states)
        if s.capped:
            part.count('project_search_capped')
    finally:
        shutil.rmtree(root, ignore_errors=True)
    return out


# ------------------------------------------------------------------ spaces / units

MCLS = '''\
class Shape(object):
    def area(self):
        return 0
class Circle(Shape):
    def radius(self):
        self.r = 1
        return self.r
class Ring(Circle):
    def hole(self):
        return Shape()
'''

SAMEATTR = '''\
class Foo(object):
    def foo_method(self): pass
class Bar(object):
    def bar_method(self): pass
class B(object):
    def __init__(self):
        self.x = Foo()
class D(B):
    def __init__(self):
        self.x = Bar()
    def other(self):
        self.y = self.x
b = B()
d = D()
b.x
d.x
d.y
b
d
'''

ONELINE = 'class Foo(object):\n    def foo_method(self): pass\nclass Bar(object):\n    def bar_method(self): pass\na = Foo(); b = a; a = Bar(); c = a\nb\nc\na\nimport os; p = os.getcwd(); p\n'

CYCLIC = [
    SAMEATTR, ONELINE,
    MCLS + 's = Shape()\nc = Circle()\nr = Ring()\ns\nc\nr\nShape\nRing\nr.hole()\n',
    'class A:\n    x = 1\nclass B(A):\n    y = 2\nclass C(B, A):\n    z = 3\nb = B()\nc = C()\na = A()\nc\nb\na\nA\nC\n',

    'a = 0\nb = a\na = b\nb\na\n',
    'def f():\n    return g()\ndef g():\n    return f()\nf\ng\nf()\n',
    'class A(B): pass\nclass B(A): pass\nA\nB\nA()\n',
    'x = 0\nwhile x:\n    for y in x:\n        if y:\n            x\n        z = x\n    x = z\nz\nx\n',
    'for i in r:\n    for j in i:\n        for k in j:\n            if k:\n                i = j\n            j = k\n        k\n    j\ni\n',
    'import m1\nif m1:\n    v = m1.x1\nelse:\n    v = m1.K1()\nv\nm1\nv.attr\n',
]


def interesting(prog):
    r = repr(prog)
    loops = "'while'" in r or "'for'" in r
    nreads = r.count("'use'") + r.count("'mov'") + r.count("'callf'")
    return loops, nreads


def space(tier):
    out = []
    for p in ps.programs(3, 2, ctl=False):
        loops, nr = interesting(p)
        if loops or nr >= 2:
            out.append(p)
    k4 = []
    for p in ps.blocks(4, 2, False, False, False):
        loops, nr = interesting(p)
        if loops and nr >= 2:
            k4.append(p)
    if tier == 'quick':
        k4 = k4[::30]
    from . import names_run
    l3 = list(names_run.loops3_family())
    if tier == 'quick':
        l3 = l3[::40]
    return out + k4 + l3


def joined(text):
    """the same program with every pair of adjacent simple statements of one block joined by ';' (several reads per line)"""
    from . import c13
    ref = c13.dump(text)
    cur = text
    for _ in range(6):
        nxt = None
        for label, t in c13.op_semicolon(cur):
            if label.startswith('join@'):
                try:
                    if c13.dump(t) == ref:
                        nxt = t
                        break
                except SyntaxError:
                    pass
        if nxt is None:
            break
        cur = nxt
    return cur


def unit_progs(arg):
    tier, lo, hi = arg
    part = Part()
    for i, prog in enumerate(space(tier)[lo:hi]):
        text = ps.render(prog, 'plain').text
        part.count('evaluations')
        part.count('programs')
        for sig, what, wit in check_text(text, part):
            part.violation(sig, what, wit)
        if (lo + i) % 3 == 0:
            jt = joined(text)
            if jt != text:
                part.count('programs_joined_layout')
                for sig, what, wit in check_text(jt, part):
                    part.violation(sig + ':joined-layout', what, dict(wit, suffix=':joined-layout'))
    part.outcome(('progs', lo, part.counters['states']))
    return part


def unit_text(arg):
    text, depth = arg
    part = Part()
    part.count('evaluations')
    # hand-written modules have 10-20 query positions: all histories up to the given length (not to closure)
    for sig, what, wit in check_text(text, part, max_states=3000, max_depth=depth):
        part.violation(sig, what, wit)
    part.outcome(('text', text[:20], part.counters['states']))
    return part


def unit_file(path):
    part = Part()
    part.count('evaluations')
    for sig, what, wit in check_file(path, part):
        part.violation(sig, what, wit)
    part.outcome(('file', path))
    return part


def unit_project(which):
    part = Part()
    part.count('evaluations')
    for sig, what, wit in project_search(part, which):
        part.violation(sig, what, wit)
    part.outcome('project')
    return part


def _dispatch(u):
    return u[0](u[1])


def repo_files(tier):
    files = sorted(glob.glob(os.path.join(REPO, 'supp', '*.py')) + glob.glob(os.path.join(REPO, 'tests', '*.py')), key=os.path.getsize)
    files = [f for f in files if os.path.getsize(f) > 0 and not f.endswith('umsgpack.py')]
    if tier == 'quick':
        return files[:6] + [f for f in files if f.endswith(('merged_dict.py', 'module.py', 'linter.py'))]
    return files


def replay(w):
    p = Part()
    if w['kind'] == 'text':
        return [(s + w.get('suffix', ''), wh) for s, wh, _ in check_text(w['text'], p, max_states=3000, max_depth=3)]
    if w['kind'] == 'file':
        return [(s, wh) for s, wh, _ in check_file(w['path'], p)]
    return [(s, wh) for s, wh, _ in project_search(p, w.get('which', 'loop'))]


def run(ctx):
    ctx.level = 'model_checking'
    sp = space(ctx.tier)
    from . import names_run
    nl3 = len(list(names_run.loops3_family())[::40]) if ctx.quick else len(list(names_run.loops3_family()))
    cheap = len(sp) - nl3
    units = [(unit_progs, (ctx.tier, lo, min(cheap, lo + 40))) for lo in range(0, cheap, 40)]
    # three nested loops cost seconds each (every nested resolution is redone): small units for load balance
    units += [(unit_progs, (ctx.tier, lo, min(len(sp), lo + 2))) for lo in range(cheap, len(sp), 2)]
    units += [(unit_text, (t, 2 if ctx.quick else 3)) for t in CYCLIC]
    units += [(unit_file, f) for f in sorted(set(repo_files(ctx.tier)))]
    units += [(unit_project, 'loop'), (unit_project, 'cls'), (unit_project, 'assign'), (unit_project, 'cycle'), (unit_project, 'call'), (unit_project, 'cycle3'), (unit_project, 'guard1'), (unit_project, 'guard2'), (unit_project, 'guard3')]
    ctx.pmap(_dispatch, ctx.shuffled(units), chunksize=1)
    c = ctx.counters
    ex = sp[len(sp) // 2]
    ctx.sample({'kind': 'generated module, all query histories to closure', 'source': ps.render(ex, 'plain').text})
    ctx.sample({'kind': 'project request alphabet', 'requests': [list(map(str, r)) for r in REQS_LOOP + REQS_CLS]})
    ctx.coverage.update({
        'states': int(c['states']),
        'transitions': int(c['transitions']),
        'traces_validated_against_impl': int(c['transitions']),
        'programs': int(c['programs']),
        'modules_closed': int(c['modules_closed']),
        'modules_capped': int(c['modules_capped']),
        'modules_depth_bounded': int(c['modules_depth_bounded']),
        'files_bounded': int(c['files_bounded']),
        'project_states': int(c['project_states']),
        'rule': 'state = sha1 of the generic structural fingerprint of everything reachable from the SourceScope (or Project); a transition '
                '= one query replayed on a freshly built object after its history; closed = BFS reached closure (all histories of any length); '
                'files_bounded = real files explored with 4 whole-file orders + fresh-first views on every 25th read',
    })
    ctx.counters['distinct_nontrivial'] = int(c['states'])
    if c['modules_capped'] or c['project_search_capped']:
        ctx.caps_hit.append('%d modules hit the per-module state cap' % (c['modules_capped'] + c['project_search_capped']))
    if c['modules_depth_bounded']:
        ctx.caps_hit.append('%d hand-written modules (10-20 query positions each) explored for all histories up to the stated length, not to closure' % c['modules_depth_bounded'])
    ctx.assumptions += [
        'two objects with equal fingerprints answer every future query identically (supp reads no mutable state outside the walked graph; the builtin scope singleton is part of the walk and is reset for every fresh build)',
        'real files: histories are bounded (4 whole-file orders, differential) - not closed',
    ]
