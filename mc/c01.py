"""C01 - names bound at run time are visible (no false E02/E42, offered by completion)."""
from .names_run import run_names, replay_names


def run(ctx):
    run_names(ctx, 'C01')


def replay(w):
    return replay_names(w, 'C01')
