"""C15 - remote calls are transparent and failures are isolated.

(A) E2: BFS over request sequences on the REAL client (Environment._call and the public request
    methods) and the REAL Server.run/process joined by a synchronous in-memory connection; state =
    fingerprint of the server session (configured project + its caches); every reply is compared with
    the in-process API on an identical project.
(B) E1: environment answers of the server's connection (poll timeout, EOF, undecodable bytes, OSError
    on recv / send) as choice points, deviation bound 1 (quick) / 2 (thorough).
(C) conformance: request sequences and payload sizes (0 B, 64 KiB+-1, 4 MiB) against a real server
    subprocess started by the real Environment.
"""
import os
import sys
import json
import shutil
import tempfile
import itertools
import collections

from .common import Part, HarnessError
from . import e1, e2
from . import namecheck as nc

import supp.remote as R
import supp.server as S
from supp import assistant, linter
from supp.project import Project
from supp.umsgpack import dumps, loads


# ------------------------------------------------------------------ in-memory connection

class LeaveLoop(BaseException):
    """raised by poll() when nothing is pending: the harness' way to pause the (stateless) server loop"""


class ServerEnd(object):
    def __init__(self, link):
        self.link = link

    def poll(self, timeout=None):
        l = self.link
        l.polls += 1
        if l.closed_by_client and not l.inbox:
            return True      # a closed peer makes the real poll() return True and recv raise EOFError
        if not l.inbox:
            raise LeaveLoop()
        if l.ch is not None and l.polls <= l.horizon:
            if l.ch.choose(2, 1, 'poll') == 1:
                l.faults.append('poll-timeout')
                return False
        return True

    def recv_bytes(self):
        l = self.link
        if l.closed_by_client and not l.inbox:
            raise EOFError()
        if l.ch is not None:
            c = l.ch.choose(4, 1, 'recv')
            if c == 1:
                l.faults.append('recv-eof')
                raise EOFError()
            if c == 2:
                l.faults.append('recv-garbage')
                l.inbox.popleft()
                return b'\xc1garbage'
            if c == 3:
                l.faults.append('recv-oserror')
                raise OSError('connection reset')
        return l.inbox.popleft()

    def send_bytes(self, b):
        l = self.link
        if l.ch is not None:
            if l.ch.choose(2, 1, 'send') == 1:
                l.faults.append('send-oserror')
                l.lost += 1
                raise OSError('broken pipe')
        l.outbox.append(b)

    def close(self):
        self.link.closed_by_server = True


class ClientEnd(object):
    def __init__(self, link):
        self.link = link

    def send_bytes(self, b):
        self.link.inbox.append(b)

    def recv_bytes(self):
        l = self.link
        l.pump()
        if not l.outbox:
            raise EOFError('no reply')       # the real client would block forever / see EOF
        return l.outbox.popleft()

    def close(self):
        self.link.closed_by_client = True


class Link(object):
    def __init__(self, ch=None, horizon=8):
        self.inbox = collections.deque()
        self.outbox = collections.deque()
        self.ch = ch
        self.horizon = horizon
        self.polls = 0
        self.faults = []
        self.lost = 0
        self.closed_by_client = False
        self.closed_by_server = False
        self.server_ended = None       # None = alive, else reason
        self.server = S.Server(ServerEnd(self))
        self.client = ClientEnd(self)

    def pump(self):
        """(re-)enter the real server loop until it has nothing to do"""
        if self.server_ended:
            return
        try:
            self.server.run()
            self.server_ended = 'loop-left'
        except LeaveLoop:
            pass
        except BaseException as e:    # noqa
            self.server_ended = 'crash:%s:%s' % (type(e).__name__, str(e)[:80])


def make_env(link):
    env = R.Environment()          # the constructor starts nothing; the connection is what a finished start leaves behind
    env.conn = link.client
    return env


# ------------------------------------------------------------------ request alphabet and reference

SRC_OK = 'import m1\nif m1:\n    v = m1.x1\nelse:\n    v = m1.K1()\nv\nundefined_name\n'
SRC_BAD = 'def f(:\n'


ROOT2 = None


def second_root():
    """a second project directory whose m1.py differs from genproject/m1.py (reconfiguration must not keep the old one)"""
    global ROOT2
    if ROOT2 is None or not os.path.exists(ROOT2):
        shared = os.environ.get('C15_ROOT2')        # made (and removed) by run(); workers of the pool never clean up themselves
        if shared:
            os.makedirs(shared, exist_ok=True)
            ROOT2 = shared
        else:
            ROOT2 = tempfile.mkdtemp(prefix='c15_root2_')      # outside run() (a replay): removed when the process ends
            import atexit
            atexit.register(shutil.rmtree, ROOT2, True)
        with open(os.path.join(ROOT2, 'm1.py'), 'w') as f:
            f.write('\n\nonly_in_root2 = 1\n\n\ndef fn1():\n    return 2\n')
    return ROOT2


# a chain of aliases deep enough to exhaust the interpreter stack while the attribute tables of a 12-class
# hierarchy of the project are being collected; what the request itself answers depends on the stack depth it is
# served at (any well-formed reply is accepted), what LATER requests answer must not
DEEP = 'from mchain import A11 as C\na0 = C.m0\n' + ''.join('a%d = a%d\n' % (i, i - 1) for i in range(1, 241)) + 'a240.'


def alphabet(root):
    f = os.path.join(root, 'x.py')
    return alphabet0(root, f) + [
        ('configure', ({'sources': [second_root()]},)),
        ('assist', ('import m1\nm1.', (2, 3), f)),
        ('location', ('from m1 import fn1\nfn1\n', (2, 3), f)),
        # new items go to the END (real_cases refers to earlier ones by index)
        ('eval', ('class E(Exception):\n    def __str__(self):\n        raise RuntimeError("no str")\nraise E()',)),
        ('eval', ('raise GeneratorExit("gen")',)),
        ('assist', ('import linter\nlinter.', (2, 7), f)),          # a module of supp itself is not a module of the project
        ('assist', (DEEP, (243, 5), f)),
        ('assist', ('from mchain import A11 as C\nC.', (2, 2), f)),
        ('run', ()),                                                # attributes of the server object that are not requests
        ('__init__', (None,)),
        ('assist', ('import json\njson.', (2, 5), f)),              # answered from the source or from the live module: depends on dyn_modules only
    ]


def alphabet0(root, f):
    return [
        ('configure', ({'sources': [root]},)),
        ('configure', ({'sources': [root], 'dyn_modules': ['json']},)),
        ('configure', ({'nosources': 1},)),                          # missing key -> KeyError on the server
        ('assist', (SRC_OK + 'm1.', (8, 3), f)),
        ('location', (SRC_OK, (6, 1), f)),
        ('lint', (SRC_OK, f)),
        ('lint', (SRC_BAD, f)),
        ('lint', ()),                                                # wrong arity
        ('assist', (SRC_OK, (99, 0), f)),                            # position outside the text -> raises on the server
        ('eval', ('return [1, (2, 3), {"k": None}, "s", 1.5, True]',)),
        ('eval', ('raise ValueError("boom %d" % 7)',)),
        ('eval', ('return {1, 2}',)),                                # result cannot be serialised
        ('eval', ('return 2 ** 70',)),                               # result cannot be serialised
        ('eval', ('return object()',)),
        ('eval', ('return ["ok", "\\udc80"]',)),                     # supported type, still not serialisable (lone surrogate)
        ('eval', ('a = []\na.append(a)\nreturn a',)),                # supported type, serialisation recurses for ever
        ('nosuch', (1,)),                                            # unknown method
        ('eval', ('raise SystemExit(3)',)),                          # a request that tries to end the server
        ('eval', ('import sys\nsys.exit("bye")',)),
        ('eval', ('raise KeyboardInterrupt("stop")',)),
    ]


def listify(x):
    if isinstance(x, (list, tuple)):
        return [listify(e) for e in x]
    if isinstance(x, dict):
        return {k: listify(v) for k, v in x.items()}
    return x


class Reference(object):
    """the in-process API on an identical project"""

    def __init__(self):
        self.project = None

    def expected(self, name, args):
        """-> ('ok', value) | ('exc', message or None)   (None = any message) | ('any', None)"""
        r = self._expected(name, args)
        if name == 'assist' and args and args[0] == DEEP:
            return ('any', None)         # served at another stack depth: may or may not run out of stack
        return r

    def _expected(self, name, args):
        try:
            if name == 'configure':
                cfg = args[0]
                self.project = Project(cfg['sources'], dyn_modules=cfg.get('dyn_modules'))
                return ('ok', None)
            if name in ('assist', 'location', 'lint'):
                if len(args) != (2 if name == 'lint' else 3):
                    return ('exc', None)     # arity error: Python's own TypeError wording, any message
                if self.project is None:
                    return ('exc', "'Server' object has no attribute 'project'")
                if name == 'lint':
                    source, filename = args[0], args[1]
                    with self.project.check_changes():
                        return ('ok', listify([r[:4] for r in linter.lint(self.project, source, filename)]))
                source, position, filename = args
                with self.project.check_changes():
                    fn = assistant.assist if name == 'assist' else assistant.location
                    return ('ok', listify(fn(self.project, source, tuple(position), filename)))
            if name == 'eval':
                ctx = {}
                src = '\n'.join('    ' + r for r in args[0].splitlines())
                exec('def boo():\n%s\nresult = boo()' % src, ctx)
                v = ctx['result']
                try:
                    return ('ok', listify(loads(dumps(v))))
                except Exception:
                    return ('exc', 'Serialize error')
            if name in ('run', 'process', '__init__') or name.startswith('_'):
                return ('exc', None)     # not a request: an error reply with any message
            return ('exc', "'Server' object has no attribute '%s'" % name)
        except BaseException as e:
            try:
                return ('exc', str(e))
            except Exception:
                return ('exc', None)     # an exception that cannot even be printed: any message


def call(env, name, args):
    """through the public client API where there is one"""
    try:
        if name in ('configure', 'assist', 'location', 'lint', 'eval') and not (name == 'lint' and len(args) != 2):
            v = getattr(env, name)(*args)
        else:
            v = env._call(name, *args)
        return ('ok', listify(v))
    except EOFError:
        return ('noreply', None)
    except Exception as e:
        if type(e) is not Exception:
            return ('exc-class', '%s: %s' % (type(e).__name__, e))
        return ('exc', str(e))


def same(got, exp):
    if exp[0] == 'any':
        return got[0] in ('ok', 'exc')
    if exp[0] == 'exc':
        if got[0] != 'exc':
            return False
        return exp[1] is None or got[1] == exp[1]
    return got == exp


def sig_for(name, args, got, exp):
    kind = 'valid' if exp[0] == 'ok' else 'failing'
    return 'reply-mismatch:%s:%s-request:got-%s' % (name, kind, got[0])


# ------------------------------------------------------------------ (A) BFS over request sequences

def run_sequence(root, seq, ch=None):
    link = Link(ch)
    env = make_env(link)
    ref = Reference()
    al = alphabet(root)
    results = []
    for j in seq:
        name, args = al[j]
        exp = ref.expected(name, args)
        got = call(env, name, args)
        results.append((j, got, exp))
    link.reference = ref
    return link, results


def deep_request(n, f):
    src = 'from mchain import A11 as C\na0 = C.m0\n' + ''.join('a%d = a%d\n' % (i, i - 1) for i in range(1, n + 1)) + 'a%d.' % n
    return ('assist', (src, (n + 3, len('a%d.' % n)), f))


def unit_stack(arg):
    """A request that runs out of stack must not change the replies to later requests.  WHERE in the evaluation the
    stack ends depends on the depth the request is served at, so every chain length of a window is tried (each on a
    freshly configured project): some of them end it in the middle of collecting the attribute tables of the hierarchy."""
    lo, hi = arg
    part = Part()
    root = nc.PROJECT_DIR
    f = os.path.join(root, 'x.py')
    cfg = ('configure', ({'sources': [root]},))
    good = ('assist', ('from mchain import A11 as C\nC.', (2, 2), f))
    ref = Reference()
    ref.expected(*cfg)
    want = ref.expected(*good)
    link = Link(None)
    env = make_env(link)
    for n in range(lo, hi):
        part.count('evaluations')
        part.count('stack_window_requests')
        call(env, *cfg)
        first = call(env, *deep_request(n, f))
        part.outcome(('stack', first[0]))
        if first[0] == 'exc':
            part.count('stack_requests_failed')
        after = call(env, *good)
        if not same(after, want):
            part.violation('reply-changed-after-failing-request:stack-exhausted', 'after the request with an alias chain of %d (%s) the request %s answers %s, a fresh project %s' % (
                n, short(first), short(good[1][:1]), short(after), short(want)), {'kind': 'stack', 'n': n})
            break
    return part


def state_of(link):
    # the state of the search is the PAIR (server session, reference session): a history after which the server looks as
    # before but the reference does not (a configure the server ignored) must still be extended
    proj = getattr(link.server, 'project', None)
    ref = getattr(getattr(link, 'reference', None), 'project', None)
    return e2.fingerprint([proj, ref, link.server_ended, len(link.inbox), len(link.outbox)], skip_attrs=('mtime',))


def unit_bfs(arg):
    maxlen, max_states = arg
    part = Part()
    root = nc.PROJECT_DIR
    al = alphabet(root)
    out = {}

    def build(hist):
        link, results = run_sequence(root, hist)
        return link, (results[-1] if results else None)

    def on_transition(hist, ev, obs):
        j, got, exp = obs
        part.count('replies_compared')
        part.outcome((j, got[0], json.dumps(got[1], sort_keys=True, default=repr)[:200]))
        if not same(got, exp):
            sig = sig_for(al[j][0], al[j][1], got, exp)
            if sig not in out:
                out[sig] = ('request %s%r after request history %s: client got %s, in-process API gives %s' % (
                    al[j][0], short(al[j][1]), hist, short(got), short(exp)), {'kind': 'sequence', 'seq': hist + [ev]})

    class Bounded(e2.Search):
        pass

    s = e2.Search(build, list(range(len(al))), state_of, max_states=max_states)
    # bound the history length as well as closing on states
    orig_build = s.build

    def run():
        import collections as c
        obj, _ = orig_build([])
        seen = {state_of(obj)}
        frontier = c.deque([[]])
        while frontier:
            hist = frontier.popleft()
            for ev in s.events:
                h2 = hist + [ev]
                obj, obs = orig_build(h2)
                s.transitions += 1
                on_transition(hist, ev, obs)
                if obj.server_ended:
                    k2 = 'ended:' + str(obj.server_ended)
                    if 'server-ended' not in out:
                        out['server-ended:' + str(obj.server_ended).split(':')[0]] = (
                            'the server loop ended (%s) after request sequence %s' % (obj.server_ended, h2), {'kind': 'sequence', 'seq': h2})
                k = state_of(obj)
                if k not in seen and len(h2) < maxlen:
                    seen.add(k)
                    frontier.append(h2)
                    s.max_depth = max(s.max_depth, len(h2))
        s.states = len(seen)
    run()
    part.count('states', s.states)
    part.count('transitions', s.transitions)
    part.count('evaluations', s.transitions)
    part.counters['max_depth'] = s.max_depth
    for sig, (what, wit) in out.items():
        part.violation(sig, what, wit)
    part.sample({'part': 'A in-process sequences', 'alphabet': ['%s%s' % (n, short(a)) for n, a in al], 'states': s.states, 'transitions': s.transitions})
    return part


def short(x):
    r = repr(x)
    return r if len(r) < 160 else r[:150] + '...'


# ------------------------------------------------------------------ (B) environment answers

FAULT_SEQS = [[0, 5, 10, 5], [0, 11, 3], [7, 0, 4]]


def fault_body(seq):
    def body(ch):
        link, results = run_sequence(nc.PROJECT_DIR, seq, ch)
        return observe_faults(link, results)
    return body


def observe_faults(link, results):
    bad = []
    ended = link.server_ended
    if ended and ended.startswith('crash'):
        bad.append(('server-crash-under-fault', 'server loop died with %s after faults %s' % (ended, link.faults)))
    recv_fault = any(f.startswith('recv-') for f in link.faults)
    if ended == 'loop-left' and not recv_fault:
        bad.append(('server-left-loop-without-cause', 'server left its loop although no EOF/garbage/reset was injected (faults %s)' % link.faults))
    if recv_fault and not ended:
        # after EOF / undecodable input / reset the loop must be left
        bad.append(('server-survives-broken-input', 'server still in its loop after %s' % link.faults))
    # replies that did arrive must be the right ones, in order
    lost = link.lost
    for j, got, exp in results:
        if got[0] == 'noreply':
            continue
        if not same(got, exp):
            if not link.faults:
                bad.append(('reply-mismatch-under-no-fault', 'request %d: got %s expected %s' % (j, short(got), short(exp))))
            elif lost == 0 and not recv_fault:
                bad.append(('reply-mismatch-after-timeout', 'request %d: got %s expected %s after faults %s' % (j, short(got), short(exp), link.faults)))
            elif lost and not recv_fault:
                bad.append(('reply-mispaired-after-send-error', 'request %d: got %s expected %s after faults %s' % (j, short(got), short(exp), link.faults)))
    answered = sum(1 for _j, got, _e in results if got[0] != 'noreply')
    if not recv_fault and answered != len(results) - lost:
        bad.append(('reply-lost', '%d of %d requests answered although only %d sends failed (faults %s)' % (answered, len(results), lost, link.faults)))
    return {'faults': list(link.faults), 'ended': ended, 'answered': answered, 'bad': bad,
            'replies': [short(g) for _j, g, _e in results]}


def unit_faults(arg):
    seq, bound = arg
    part = Part()
    body = fault_body(seq)

    def on_exec(x):
        part.count('evaluations')
        part.count('fault_executions')
        part.count('fault_points', len(x.trace))
        part.outcome((tuple(seq), tuple(x.obs['faults']), x.obs['ended'], x.obs['answered']))
        for sig, what in x.obs['bad']:
            part.violation(sig + ':' + '+'.join(sorted(set(x.obs['faults']))), what + '; sequence %s choices %s' % (seq, x.choices),
                           {'kind': 'faults', 'seq': seq, 'choices': x.choices})

    n, left = e1.explore(body, bound=bound, on_exec=on_exec, max_exec=50000)
    if left:
        part.count('fault_search_capped')
    e1.self_test(body, [[]])
    part.sample({'part': 'B environment answers', 'sequence': seq, 'executions': n})
    return part


# ------------------------------------------------------------------ (C) real subprocess

def call_with_deadline(env, name, args, seconds):
    """the real client blocks for ever when the server never answers: give up after `seconds`, end the server and
    report ('noreply', ...) like the in-memory link does"""
    import threading
    box = []
    t = threading.Thread(target=lambda: box.append(call(env, name, args)), daemon=True)
    t.start()
    t.join(seconds)
    if box:
        return box[0]
    p = getattr(env, 'proc', None)
    if p is not None:
        env._killed_by_harness = True
        p.kill()
    t.join(10)
    return ('noreply', 'no reply within %d s' % seconds)


def real_sequence(arg):
    """one real server per sequence"""
    seq_items, label = arg
    part = Part()
    part.count('evaluations')
    part.count('real_sequences')
    env = R.Environment(env={'SUPP_LOG_LEVEL': '100'})
    ref = Reference()
    try:
        for name, args in seq_items:
            # the in-process reference must see the module path the server process has: not the generated project the
            # harness itself put on sys.path (namecheck executes generated programs), not the current directory
            saved = sys.path[:]
            sys.path[:] = [p for p in sys.path if p not in ('', '.', nc.PROJECT_DIR)]
            try:
                exp = ref.expected(name, args)
            finally:
                sys.path[:] = saved
            got = call_with_deadline(env, name, args, 60)
            part.count('real_replies_compared')
            part.outcome(('real', name, got[0]))
            if not same(got, exp):
                part.violation('real:' + sig_for(name, args, got, exp),
                               'real server: request %s%s in sequence [%s]: client got %s, in-process API gives %s' % (
                                   name, short(args), label, short(got), short(exp)), {'kind': 'real', 'label': label})
                break
            if got[0] == 'noreply':
                break
        if getattr(env, 'proc', None) is not None and env.proc.poll() is not None and not getattr(env, '_killed_by_harness', False):
            part.violation('real:server-died', 'server process exited (%s) during sequence [%s]' % (env.proc.returncode, label),
                           {'kind': 'real', 'label': label})
    finally:
        try:
            env.close()
        except Exception:
            pass
        p = getattr(env, 'proc', None)
        if p is not None:
            try:
                p.wait(10)
            except Exception:
                p.kill()
                p.wait()
    return part


def real_cases(tier):
    root = nc.PROJECT_DIR
    al = alphabet(root)
    f = os.path.join(root, 'x.py')
    cases = {}
    cfg = al[0]
    for i, item in enumerate(al):
        cases['single:%d:%s' % (i, item[0])] = [item]
        cases['configured:%d:%s' % (i, item[0])] = [cfg, item]
    # a failing request injected at every index of a valid sequence
    valid = [al[3], al[4], al[5], al[9]]
    for bad in (al[2], al[7], al[8], al[10], al[11], al[14]):
        for idx in range(len(valid) + 1):
            seq = [cfg] + valid[:idx] + [bad] + valid[idx:]
            if tier == 'quick' and idx not in (0, 2):
                continue
            cases['inject:%s@%d' % (bad[0] + str(al.index(bad)), idx)] = seq
    # payload sizes
    for n in (0, 65535, 65536, 65537) + ((4 * 1024 * 1024,) if True else ()):
        body = '#' + 'x' * max(0, n - 2) + '\n' if n else ''
        cases['payload:%d' % n] = [cfg, ('lint', (body, f)), ('lint', (body + 'undefined_zz\n', f))]
    for n in (15, 16, 65535, 65536):
        cases['reply-array:%d' % n] = [('eval', ('return list(range(%d))' % n,))]
    cases['reply-big-string'] = [('eval', ('return "y" * (4 * 1024 * 1024)',))]
    if tier != 'quick':
        for a, b in itertools.product(range(len(al)), repeat=2):
            cases['pair:%d,%d' % (a, b)] = [cfg, al[a], al[b]]
    return cases


_CASES = {}


def unit_real(label):
    tier, lab = label
    if tier not in _CASES:
        _CASES[tier] = real_cases(tier)
    return real_sequence((_CASES[tier][lab], lab))


def replay(w):
    p = Part()
    if w['kind'] == 'sequence':
        link, results = run_sequence(nc.PROJECT_DIR, w['seq'])
        j, got, exp = results[-1]
        al = alphabet(nc.PROJECT_DIR)
        out = []
        if not same(got, exp):
            out.append((sig_for(al[j][0], al[j][1], got, exp), 'got %s expected %s' % (short(got), short(exp))))
        if link.server_ended:
            out.append(('server-ended:' + str(link.server_ended).split(':')[0], link.server_ended))
        return out
    if w['kind'] == 'stack':
        # the depth this is replayed at differs from the depth it was found at: the whole window is scanned again
        return [(v['sig'], v['what']) for v in unit_stack((100, 440)).violations]
    if w['kind'] == 'faults':
        x = e1.run_once(fault_body(w['seq']), w['choices'])
        return [(sig + ':' + '+'.join(sorted(set(x.obs['faults']))), what) for sig, what in x.obs['bad']]
    if w['kind'] == 'real':
        for tier in ('quick', 'thorough'):
            cases = real_cases(tier)
            if w['label'] in cases:
                part = real_sequence((cases[w['label']], w['label']))
                return [(v['sig'], v['what']) for v in part.violations]
    return []


def _dispatch(u):
    return u[0](u[1])


def run(ctx):
    ctx.level = 'model_checking'
    quick = ctx.quick
    units = [(unit_bfs, (4 if quick else 6, 4000))]
    for seq in FAULT_SEQS + ([] if quick else [[0, 3, 12, 4, 13, 5], [1, 9, 14, 9]]):
        units.append((unit_faults, (seq, 2 if quick else 3)))
    for lo in range(120, 420, 20):
        units.append((unit_stack, (lo, lo + 20)))
    os.environ['C15_ROOT2'] = tempfile.mkdtemp(prefix='c15_root2_')
    try:
        second_root()
        ctx.pmap(_dispatch, units, chunksize=1)
        labels = sorted(real_cases(ctx.tier))
        ctx.pmap(unit_real, [(ctx.tier, l) for l in ctx.shuffled(labels)], chunksize=1, jobs=8)
    finally:
        shutil.rmtree(os.environ.pop('C15_ROOT2'), ignore_errors=True)
    c = ctx.counters
    ctx.coverage.update({
        'states': int(c['states']),
        'transitions': int(c['transitions']) + int(c['fault_points']),
        'traces_validated_against_impl': int(c['real_replies_compared']),
        'in_process_sequences_max_len': 4 if quick else 6,
        'fault_executions': int(c['fault_executions']),
        'fault_bound_completed': 2 if quick else 3,
        'real_sequences': int(c['real_sequences']),
        'rule': 'A: BFS over request sequences (15-request alphabet) on real client+server over an in-memory connection, state = fingerprint of the server '
                'session, each reply compared with the in-process API; B: every placement of <=bound faults (poll timeout, EOF, garbage, OSError on recv/send) '
                'in 3 sequences; C: real server subprocess per sequence (singles, configured singles, failing request injected at indices, payload/reply sizes%s); '
                'distinct_nontrivial = distinct (request, outcome) observations' % ('' if quick else ', all pairs'),
    })
    if c['fault_search_capped']:
        ctx.caps_hit.append('fault search hit 50000 executions')
    ctx.assumptions += [
        'the in-memory connection re-enters Server.run() whenever the client waits for a reply; the loop keeps no state between iterations',
        'a request whose server-side function raises must arrive as Exception(str(original exception)); unserialisable results as "Serialize error"',
        'real-subprocess conformance uses one server per sequence, wall-clock timeouts of the real client (5 s launch)',
    ]
