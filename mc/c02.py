"""C02 - the definition actually read is reported (alternatives, no false unused, goto-def)."""
from .names_run import run_names, replay_names


def run(ctx):
    run_names(ctx, 'C02')


def replay(w):
    return replay_names(w, 'C02')
