"""C09 - a long-lived project answers exactly like a fresh one (cache transparency).

E2 (explicit-state BFS to closure) over histories on a REAL directory and a REAL long-lived Project:
  events   rewrite(mod) (toggle between two contents, new mtime from a logical clock), touch(mod),
           create(d) (a module that did not exist), request(j) inside project.check_changes()
  state    content version of every file + generic fingerprint of the Project (cached modules, their
           scopes, every resolved reference) with absolute mtimes abstracted to "equal / not equal to
           the disk's" - the only way SourceModule.changed reads them
  oracle   every request equals the same request on Project(sources) created on the spot
One project per chain shape: x -> a -> b (-> c), every combination of import edge kinds.
"""
import os
import json
import shutil
import tempfile
import itertools

from .common import Part, reset_global_memo
from . import e2

import supp.scope
from supp.assistant import assist, location
from supp.linter import lint
from supp.project import Project
from supp.module import SourceModule

LEAF = ['class K(object):\n    def old(self): pass\n    shared = 1\nfoo = 1\nkeep = 0\n',
        'class K(object):\n    def new(self): pass\n    shared = 2\nbar = 1\nkeep = 0\n']

EDGE = {   # how module <up> imports module <down>
    'mod': 'import {down}\n',
    'from': 'from {down} import K, keep\n',
    'star': 'from {down} import *\n',
    'from-as': 'from {down} import K as K\nimport {down} as {down}\n',
}

D_MODULE = 'dval = 1\nclass D(object):\n    datt = 1\n'


def requests(chain, with_d):
    """request alphabet through the buffer x (never on disk); chain = ['a','b'] or ['a','b','c']"""
    a = chain[0]
    leaf = chain[-1]
    R = [
        ('assist', 'import {a}\n{a}.'.format(a=a), (2, 2)),
        ('assist', 'import {a}\n{a}.K.'.format(a=a), (2, 4)),
        ('assist', 'from {a} import *\nK.'.format(a=a), (2, 2)),
        ('lint', 'from {a} import *\nprint(K, foo, keep)\n'.format(a=a), None),
        ('location', 'import {a}\n{a}.K\n'.format(a=a), (2, 3)),
        ('assist', 'import {l}\n{l}.'.format(l=leaf), (2, 2)),
    ]
    for m in chain[1:]:
        R.append(('assist', 'import {a}\n{a}.{m}.'.format(a=a, m=m), (2, len(m) + 3)))
    if with_d == 'cycle':
        R.append(('lint', 'from {l} import *\nprint(K, foo, keep, lfval)\n'.format(l=leaf), None))
        R.append(('lint', 'from {a} import *\nprint(K, foo, keep, lfval)\n'.format(a=a), None))
    if with_d is True:
        R.append(('assist', 'import {a}\n{a}.d.'.format(a=a), (2, 4)))
        R.append(('assist', 'import d\nd.', (2, 2)))
    return R


class World(object):
    def __init__(self, root, chain, kinds, with_d):
        self.root = root
        self.chain = chain
        self.kinds = kinds
        self.with_d = with_d
        self.clock = 1000
        self.back = 900
        self.ver = {}
        shutil.rmtree(root, ignore_errors=True)
        os.makedirs(root)
        leaf = chain[-1]
        self.ver[leaf] = 0
        if with_d == 'cycle':
            self.write('lf', 'lfval = 1\n')
        self.write(leaf, self.content(leaf, 0))
        for i in range(len(chain) - 2, -1, -1):
            self.ver[chain[i]] = 0
            self.write(chain[i], self.content(chain[i], 0))
        reset_global_memo()   # process-global memo: every world starts from a fresh one
        self.project = Project([root])
        self.x = os.path.join(root, 'x.py')
        self.reqs = requests(chain, with_d)

    def content(self, mod, ver):
        i = self.chain.index(mod)
        if i == len(self.chain) - 1:
            # 'cycle': the last module star-imports the first one back, and then a module outside the cycle
            back = 'from %s import *\nfrom lf import *\n' % self.chain[0] if self.with_d == 'cycle' else ''
            return ('# moved down by one line\n' if ver & 2 else '') + back + LEAF[ver & 1]
        text = EDGE[self.kinds[i]].format(down=self.chain[i + 1])
        if i == 0 and self.with_d is True:
            text += 'import d\n'
        if ver & 1:
            text += 'extra_%s = 1\n' % mod
        return text

    def write(self, mod, text):
        fn = os.path.join(self.root, mod + '.py')
        with open(fn, 'w') as f:
            f.write(text)
        self.clock += 10
        os.utime(fn, (self.clock, self.clock))

    def apply(self, ev, check=True):
        kind = ev[0]
        if kind == 'rewrite':
            m = ev[1]
            self.ver[m] ^= 1
            self.write(m, self.content(m, self.ver[m]))
        elif kind == 'rewrite_back':
            # new content with an OLDER modification time than the cached one (restore from a backup, cp -p, VCS checkout)
            m = ev[1]
            self.ver[m] ^= 1
            fn = os.path.join(self.root, m + '.py')
            with open(fn, 'w') as f:
                f.write(self.content(m, self.ver[m]))
            self.back -= 10
            os.utime(fn, (self.back, self.back))
        elif kind == 'shift':
            # same code, one comment line more or less on top: only positions change
            m = ev[1]
            self.ver[m] ^= 2
            self.write(m, self.content(m, self.ver[m]))
        elif kind == 'touch':
            m = ev[1]
            self.write(m, self.content(m, self.ver[m]))
        elif kind == 'create':
            if 'd' not in self.ver:
                self.ver['d'] = 0
                self.write('d', D_MODULE)
        else:
            r = self.reqs[ev[1]]
            got = do_request(self.project, r, self.x)
            exp = do_request(Project([self.root]), r, self.x) if check else None
            return got, exp
        return None

    def state(self):
        disk = tuple(sorted(self.ver.items()))
        fresh = []
        for name, m in sorted(self.project._module_cache.items()):
            if isinstance(m, SourceModule):
                try:
                    d = os.path.getmtime(m.filename)
                    # three-valued on purpose: code that compares with < or > instead of != must not be merged away
                    fresh.append((name, 0 if m.mtime == d else (1 if d > m.mtime else -1)))
                except OSError:
                    fresh.append((name, None))
        fp = e2.fingerprint([self.project], skip_attrs=('mtime', '_norm_cache'), normalize=(self.root,))
        return (disk, tuple(fresh), fp)


def do_request(P, r, x):
    kind, src, pos = r
    try:
        with P.check_changes():
            if kind == 'assist':
                pre, props = assist(P, src, pos, x)
                return json.dumps([pre, [n for n in props if not n.startswith('__')]])
            if kind == 'location':
                return json.dumps(location(P, src, pos, x))
            return json.dumps([list(t[:4]) for t in lint(P, src, x)])
    except RecursionError:
        return 'RecursionError'
    except Exception as e:
        return 'EXC:%s:%s' % (type(e).__name__, str(e)[:60])


def events(chain, with_d, nreq, extra=False):
    evs = []
    for m in chain:
        evs.append(('rewrite', m))
    for m in chain:
        evs.append(('touch', m))
    if extra:
        evs.append(('rewrite_back', chain[-1]))
        evs.append(('shift', chain[-1]))
    if with_d is True:
        evs.append(('create',))
    evs += [('req', j) for j in range(nreq)]
    return evs


def classify(world, hist, ev):
    """signature of a failing request: which kind of edit it is stale against and through which edge kinds"""
    if ('create',) in [tuple(e) for e in hist] and ev[0] == 'req':
        src = world.reqs[ev[1]][1]
        if '.d.' in src or 'import d' in src:
            return 'created-module'
    edits = [e for e in hist if e[0] in ('rewrite', 'create', 'rewrite_back', 'shift')]
    last = edits[-1] if edits else ('none',)
    if last[0] == 'create':
        what = 'created-module'
    elif last[0] in ('rewrite', 'rewrite_back', 'shift'):
        depth = world.chain.index(last[1])
        what = '%s-at-depth-%d' % ({'rewrite': 'edit', 'rewrite_back': 'edit-with-older-mtime', 'shift': 'position-shift'}[last[0]], depth)
    else:
        what = 'no-edit'
    return what


def signature(what, kinds, reqkind):
    if what == 'created-module':
        return 'stale:created-module'
    return 'stale:%s:via=%s:%s' % (what, '/'.join(kinds), reqkind)


_ROOT = None


def worker_root(parent):
    global _ROOT
    if _ROOT is None or not _ROOT.startswith(parent):
        _ROOT = os.path.join(parent, 'w%d' % os.getpid())
    return _ROOT


def expand(arg):
    """all transitions out of the state reached by hist: [(event, state key, payload)]"""
    (parent, chain, kinds, with_d, alphabet), hist = arg
    extra = 4 in alphabet and not with_d      # older-mtime / position-shift rewrites go with the location request
    try:
        root = worker_root(parent)
        out = []
        w0 = World(root, chain, kinds, with_d)
        evs = [e for e in events(chain, with_d, len(w0.reqs), extra) if e[0] != 'req' or e[1] in alphabet]
        for ev in evs:
            w = World(root, chain, kinds, with_d)
            for e in hist:
                w.apply(e, check=False)
            obs = w.apply(ev, check=True)
            payload = None
            if ev[0] == 'req':
                got, exp = obs
                payload = (got, exp if got != exp else None)
            out.append((ev, w.state(), payload))
        return out
    except BaseException as e:   # noqa
        import traceback
        return RuntimeError('expand failed: ' + traceback.format_exc())


def search(ctx, pool, parent, chain, kinds, with_d, max_states, alphabet):
    part = ctx
    spec = (parent, chain, kinds, with_d, alphabet)
    w0 = World(os.path.join(parent, 'main'), chain, kinds, with_d)
    states, transitions, depth, capped, payloads = e2.bfs_levels(pool, expand, spec, w0.state(), max_states)
    out = {}
    for hist, ev, (got, exp) in payloads:
        part.count('requests_compared')
        part.outcome(got)
        if exp is not None:
            what = classify(w0, hist, ev)
            sig = signature(what, kinds, w0.reqs[ev[1]][0])
            if sig not in out or len(hist) < len(out[sig][1]['history']) - 1:
                out[sig] = ('request %r on the long-lived project returns %s, a fresh Project returns %s; history %s; chain x->%s with edges %s' % (
                    w0.reqs[ev[1]], got[:200], exp[:200], hist + [ev], '->'.join(chain), kinds),
                    {'kind': 'history', 'chain': chain, 'kinds': list(kinds), 'with_d': with_d, 'history': [list(e) for e in hist + [ev]]})
    part.count('states', states)
    part.count('transitions', transitions)
    part.count('evaluations', transitions)
    part.count('projects')
    part.count('projects_closed' if not capped else 'projects_capped')
    part.counters['max_depth'] = max(part.counters['max_depth'], depth)
    part.sample({'chain': 'x->' + '->'.join(chain), 'edges': list(kinds), 'request_alphabet': [list(map(str, w0.reqs[j])) for j in alphabet],
                 'states': states, 'transitions': transitions, 'depth': depth}, limit=6)
    for sig, (what, wit) in out.items():
        part.violation(sig, what, wit)


def hand_histories():
    """histories over directory STRUCTURE (which the generated worlds never change): a package marker created later"""
    yield ('package-marker-created-above', [
        ('write', 'a/b/__init__.py', ''), ('write', 'a/b/k.py', 'class X:\n    attr = 1\n'), ('write', 'a/b/m.py', 'from .k import X\n'),
        ('req', 'assist', 'from .k import X\nX.', (2, 2), 'a/b/x.py'),
        ('write', 'a/__init__.py', ''),
        ('req', 'assist', 'from .k import X\nX.', (2, 2), 'a/b/x.py'),
        ('req', 'location', 'from . import k\nk.X\n', (2, 3), 'a/b/x.py'),
    ])
    yield ('package-marker-created-below', [
        ('write', 'p/__init__.py', ''), ('write', 'p/q/k.py', 'val = 1\n'),
        ('req', 'assist', 'from . import k\nk.', (2, 2), 'p/q/x.py'),
        ('write', 'p/q/__init__.py', ''),
        ('req', 'assist', 'from . import k\nk.', (2, 2), 'p/q/x.py'),
        ('req', 'assist', 'from .. import q\nq.', (2, 2), 'p/q/x.py'),
    ])


def run_hand(label, steps):
    """-> [(sig, what)]"""
    root = tempfile.mkdtemp(prefix='c09h_')
    out = []
    try:
        reset_global_memo()
        P = Project([root])
        clock = 1000
        for st in steps:
            if st[0] == 'write':
                fn = os.path.join(root, st[1])
                os.makedirs(os.path.dirname(fn), exist_ok=True)
                with open(fn, 'w') as f:
                    f.write(st[2])
                clock += 10
                os.utime(fn, (clock, clock))
            else:
                _r, kind, src, pos, rel = st
                x = os.path.join(root, rel)
                got = do_request(P, (kind, src, pos), x)
                exp = do_request(Project([root]), (kind, src, pos), x)
                if got != exp:
                    out.append(('stale:directory-structure:%s' % label, 'history %s: request %r from %s on the long-lived project returns %s, a fresh Project returns %s' % (
                        label, (kind, src), rel, got[:200].replace(root, ''), exp[:200].replace(root, ''))))
                    break
    finally:
        shutil.rmtree(root, ignore_errors=True)
    return out


def replay(w):
    if w.get('kind') == 'hand':
        return run_hand(w['label'], dict(hand_histories())[w['label']])
    root = tempfile.mkdtemp(prefix='c09r_')
    try:
        world = World(root, w['chain'], tuple(w['kinds']), w['with_d'])
        obs = None
        hist = [tuple(e) for e in w['history']]
        for ev in hist:
            obs = world.apply(ev)
        got, exp = obs
        if got != exp:
            what = classify(world, hist[:-1], hist[-1])
            sig = signature(what, w['kinds'], world.reqs[hist[-1][1]][0])
            return [(sig, 'long-lived %s vs fresh %s' % (got[:200], exp[:200]))]
        return []
    finally:
        shutil.rmtree(root, ignore_errors=True)


def run(ctx):
    ctx.level = 'model_checking'
    units = []
    kinds = sorted(EDGE)
    # request alphabets are kept small (<= 3 requests per search) so that the memo state space closes;
    # every request appears in some search of every chain shape
    A2 = [(0, 1, 3), (2, 4, 5), (6, 3)]
    A2d = [(7, 8, 0), (7, 3)]
    A3 = [(0, 1, 3), (2, 4, 5), (6, 7, 3)]
    for k in kinds:
        for al in A2:
            units.append((['a', 'b'], (k,), False, 4000, al))
    for k in ('mod', 'star'):
        for al in A2d:
            units.append((['a', 'b'], (k,), True, 4000, al))
    # import cycles: the last module star-imports the first one back (requests enter through either end)
    for k in ('star', 'from') if ctx.quick else kinds:
        units.append((['a', 'b'], (k,), 'cycle', 4000, (0, 5, 7)))
    units.append((['a', 'b', 'c'], ('star', 'star'), 'cycle', 4000 if ctx.quick else 20000, (0, 5, 8)))
    if ctx.quick:
        for ks in (('star', 'star'), ('mod', 'from')):
            units.append((['a', 'b', 'c'], ks, False, 4000, A3[0] if ks[0] != 'mod' else A3[2]))
    else:
        for ks in itertools.product(kinds, repeat=2):
            for al in A3:
                units.append((['a', 'b', 'c'], ks, False, 20000, al))
        units.append((['a', 'b', 'c'], ('star', 'mod'), True, 20000, (8, 9, 3)))
        for ks in (('star', 'star', 'star'), ('mod', 'from', 'star'), ('from', 'mod', 'from-as')):
            units.append((['a', 'b', 'c', 'e'], ks, False, 20000, (0, 1, 3)))
    for label, steps in hand_histories():
        ctx.count('evaluations')
        ctx.count('hand_histories')
        for sig, what in run_hand(label, steps):
            ctx.violation(sig, what, {'kind': 'hand', 'label': label})
    parent = tempfile.mkdtemp(prefix='c09_')
    try:
        with ctx.pool() as pool:
            for chain, ks, with_d, max_states, al in ctx.shuffled(units):
                search(ctx, pool, parent, chain, ks, with_d, max_states, al)
    finally:
        shutil.rmtree(parent, ignore_errors=True)
    c = ctx.counters
    ctx.coverage.update({
        'states': int(c['states']),
        'transitions': int(c['transitions']),
        'traces_validated_against_impl': int(c['requests_compared']),
        'projects': int(c['projects']),
        'projects_closed': int(c['projects_closed']),
        'max_history_depth': int(c['max_depth']),
        'rule': 'state = (content version per file, cached-module freshness flags, sha1 of the generic fingerprint of the Project); '
                'transition = one event replayed on a freshly built directory+Project after its history; every request transition is compared with a fresh Project',
    })
    ctx.counters['distinct_nontrivial'] = int(c['states'])
    if c['projects_capped']:
        ctx.caps_hit.append('%d project searches hit their state cap (explored breadth-first up to it)' % c['projects_capped'])
    ctx.assumptions += [
        'mtimes come from a logical clock (os.utime), every write gets a new mtime',
        'absolute mtimes are abstracted to older/equal/newer than the cached one; _norm_cache depends only on directory structure, which no event changes',
        'out of domain as the property says: deleting files, removing __init__.py, shadowing a resolved module from an earlier root',
    ]
