"""C10 - unused-name diagnostics follow the exemption rules exactly.

E3: full product {binding kind} x {scope kind} x {name shape} (one never-read binding under test per
module, plus pairs of bindings of one identifier), and every real corpus file restricted to bindings
whose identifier has no Name(Load) occurrence in the file.
Reference: the syntactic rule of the statement evaluated on the AST.
"""
import ast
import os
import collections
import itertools

from .common import Part, watchdog
from . import corpus

from supp.linter import lint
from supp.project import Project

P = Project(['/nonexistent-c10'])


class Ref(ast.NodeVisitor):
    """expected unused reports among never-read identifiers: list of (code, name)"""

    def __init__(self, reads, dotted_tops):
        self.reads = reads
        self.dotted = dotted_tops
        self.stack = ['module']
        self.out = []
        self.skipped = set()

    def kind(self):
        return self.stack[-1]

    def bind(self, name, what):
        if name in self.reads or name == '*':
            return
        if name.startswith('_'):
            return
        k = self.kind()
        if k == 'exempt':
            self.skipped.add(name)     # a function that calls locals(): its own locals are not compared (the statement is silent)
            return
        if k in ('func', 'method'):
            if what == 'param' and k == 'method':
                return
            self.out.append(('W01', name))
        else:
            if what == 'import' and name not in self.dotted:
                self.out.append(('W02', name))

    def targets(self, t, what='assign'):
        if isinstance(t, ast.Name):
            self.bind(t.id, what)
        elif isinstance(t, (ast.Tuple, ast.List)):
            for e in t.elts:
                self.targets(e, what)
        elif isinstance(t, ast.Starred):
            self.targets(t.value, what)

    def visit_Assign(self, n):
        for t in n.targets:
            self.targets(t)
        self.generic_visit(n)

    def visit_AnnAssign(self, n):
        if n.value is not None:
            self.targets(n.target)
        self.generic_visit(n)

    def visit_NamedExpr(self, n):
        self.targets(n.target)
        self.generic_visit(n)

    def visit_For(self, n):
        self.targets(n.target)
        self.generic_visit(n)

    visit_AsyncFor = visit_For

    def visit_With(self, n):
        for it in n.items:
            if it.optional_vars is not None:
                self.targets(it.optional_vars)
        self.generic_visit(n)

    visit_AsyncWith = visit_With

    def visit_ExceptHandler(self, n):
        if n.name:
            self.bind(n.name, 'assign')
        self.generic_visit(n)

    def visit_Import(self, n):
        for a in n.names:
            self.bind(a.asname or a.name.partition('.')[0], 'import')

    def visit_ImportFrom(self, n):
        if n.module == '__future__' and not n.level:
            return
        for a in n.names:
            self.bind(a.asname or a.name, 'import')

    def comp(self, n):
        for g in n.generators:
            self.targets(g.target)
        self.generic_visit(n)

    visit_ListComp = visit_SetComp = visit_DictComp = visit_GeneratorExp = comp

    def func(self, n, name):
        if name:
            self.bind(name, 'def')
        k = 'method' if self.kind() == 'class' else 'func'
        for d in getattr(n, 'decorator_list', []):
            self.visit(d)
        for d in n.args.defaults + [x for x in n.args.kw_defaults if x]:
            self.visit(d)
        # a scope that calls the builtin locals() uses all of its locals (supp/linter.py: "locals() marks every local of the scope as used")
        body = n.body if isinstance(n.body, list) else [n.body]
        if calls_locals(body):
            k = 'exempt'
        self.stack.append(k)
        a = n.args
        for arg in a.posonlyargs + a.args + a.kwonlyargs + [x for x in (a.vararg, a.kwarg) if x]:
            self.bind(arg.arg, 'param')
        for s in body:
            self.visit(s)
        self.stack.pop()

    def visit_FunctionDef(self, n):
        self.func(n, n.name)

    visit_AsyncFunctionDef = visit_FunctionDef

    def visit_Lambda(self, n):
        self.func(n, None)

    def visit_ClassDef(self, n):
        self.bind(n.name, 'class')
        for x in n.decorator_list + n.bases + [k.value for k in n.keywords]:
            self.visit(x)
        self.stack.append('class')
        for s in n.body:
            self.visit(s)
        self.stack.pop()


def calls_locals(body):
    """does this function body (not nested functions/classes) contain a call of the bare name locals?"""
    stack = list(body)
    while stack:
        n = stack.pop()
        if isinstance(n, (ast.FunctionDef, ast.AsyncFunctionDef, ast.Lambda, ast.ClassDef)):
            continue
        if isinstance(n, ast.Name) and n.id == 'locals' and isinstance(n.ctx, ast.Load):
            return True
        stack.extend(ast.iter_child_nodes(n))
    return False


def expected_and_got(text, fn):
    tree = ast.parse(text)
    reads = {n.id for n in ast.walk(tree) if isinstance(n, ast.Name) and isinstance(n.ctx, ast.Load)}
    excluded = set()
    uses_locals = False
    dotted = set()
    for n in ast.walk(tree):
        if isinstance(n, (ast.Global, ast.Nonlocal)):
            excluded.update(n.names)       # the statement does not classify bindings under global/nonlocal
        if isinstance(n, ast.Import):
            for a in n.names:
                if '.' in a.name and not a.asname:
                    dotted.add(a.name.partition('.')[0])
    # the dotted-import exemption needs the top-level name to be USED through the dotted import
    dotted_used = {d for d in dotted if d in reads}
    r = Ref(reads | excluded, dotted_used)
    r.visit(tree)
    with watchdog(120):
        L = lint(P, text, fn)
    got = []
    for x in L:
        if x[0] in ('W01', 'W02'):
            name = x[1].split(': ')[1]
            if name not in reads and name not in excluded and name not in r.skipped:
                got.append((x[0], name))
    dups = [k for k, v in collections.Counter((x[0], x[1], x[2], x[3]) for x in L).items() if v > 1]
    return collections.Counter(o for o in r.out if o[1] not in r.skipped), collections.Counter(got), dups, L


def check_text(text, fn, label, part):
    out = []
    try:
        exp, got, dups, L = expected_and_got(text, fn)
    except SyntaxError:
        part.count('skipped_unparsable')
        return out
    except RecursionError:
        part.count('lint_crashes')
        return out
    except Exception as e:
        part.count('lint_crashes')      # C08's business
        return out
    part.count('bindings_expected_reported', sum(exp.values()))
    for (code, name), n in (got - exp).items():
        out.append(('extra-report:%s' % code, '%s: lint reports %s for never-read `%s` (x%d) but the exemption rules say it must not be reported' % (label, code, name, n)))
    for (code, name), n in (exp - got).items():
        other = [c for (c, nm) in got if nm == name]
        out.append(('missing-report:%s%s' % (code, ':reported-as-' + other[0] if other else ''),
                    '%s: never-read `%s` must be reported as %s (x%d) by the rules, lint reports %s' % (label, name, code, n, other or 'nothing')))
    if dups:
        out.append(('duplicate-report', '%s: reported twice: %s' % (label, dups[:3])))
    return out


# ------------------------------------------------------------------ generated product

SHAPES = {'plain': 'nm', 'underscore': '_nm', 'dunder': '__nm__'}

BINDINGS = collections.OrderedDict([
    ('assign', ['{N} = 1']),
    ('tuple-assign', ['{N}, other = 1, 2', 'print(other)']),
    ('ann-assign', ['{N}: int = 1']),
    ('walrus', ['({N} := 1)']),
    ('for-target', ['for {N} in []:', '    pass']),
    ('with-target', ['with open("f") as {N}:', '    pass']),
    ('except-name', ['try:', '    pass', 'except Exception as {N}:', '    pass']),
    ('except-star-name', ['try:', '    pass', 'except* Exception as {N}:', '    pass']),
    ('comp-var', ['[0 for {N} in []]']),
    ('def', ['def {N}():', '    pass']),
    ('class', ['class {N}:', '    pass']),
    ('import', ['import {N}']),
    ('import-as', ['import os as {N}']),
    ('import-dotted-unused', ['import {N}.sub']),
    ('import-dotted-used', ['import {N}.sub', 'import {N}', 'print({N}.sub)']),
    ('from-import', ['from os import {N}']),
    ('import-future-module-as', ['import __future__ as {N}']),
    ('from-import-as', ['from os import path as {N}']),
    ('star-import', ['from os import *']),
    ('param', ['def w({N}):', '    pass', 'w(1)']),
    ('param-default', ['def w({N}=1):', '    pass', 'w()']),
    ('param-posonly', ['def w({N}, /):', '    pass', 'w(1)']),
    ('param-kwonly', ['def w(*, {N}):', '    pass', 'w']),
    ('param-vararg', ['def w(*{N}):', '    pass', 'w()']),
    ('param-kwarg', ['def w(**{N}):', '    pass', 'w()']),
    ('lambda-param', ['w = lambda {N}: 0', 'w(1)']),
    ('lambda-kwonly', ['w = lambda *, {N}: 0', 'w']),
    ('lambda-vararg', ['w = lambda *{N}: 0', 'w()']),
    # an unused import next to a dotted import that IS used: only the dotted import's own top-level name is exempt
    ('from-import-beside-used-dotted', ['import pk.sub', 'print(pk.sub)', 'from pk import {N}']),
    ('import-as-beside-used-dotted', ['import pk.sub', 'print(pk.sub)', 'import pk as {N}']),
    ('dotted-as-beside-used-dotted', ['import pk.sub', 'print(pk.sub)', 'import pk.sub as {N}']),
    ('from-sub-beside-used-dotted', ['import pk.sub', 'print(pk.sub)', 'from pk.sub import {N}']),
    ('same-name-module-beside-used-dotted', ['import pk.sub', 'print(pk.sub)', 'from {N} import pk as other', 'print(other)', 'import os as {N}']),
    # two bindings of one identifier made by ONE statement (same visibility position): two reports
    ('tuple-dup', ['{N}, {N} = 1, 2']),
    ('chain-dup', ['{N} = {N} = 1']),
    ('for-tuple-dup', ['for {N}, {N} in []:', '    pass']),
    ('with-dup', ['with open("f") as {N}, open("g") as {N}:', '    pass']),
    ('comp-dup', ['[0 for {N} in [] for {N} in []]']),
    ('import-dup', ['import os as {N}, sys as {N}']),
    ('from-import-dup', ['from os import path as {N}, sep as {N}']),
    ('dotted-dup', ['import {N}.a, {N}.b']),
    ('def-own-param', ['def {N}({N}):', '    pass']),
    ('lambda-dup-scope', ['w = lambda {N}: (lambda {N}: 0)', 'w']),
    ('self-param-method', None),      # handled by the method scope itself
])

SCOPES = collections.OrderedDict([
    ('module', ([], 0)),
    ('class', (['class C0:'], 1)),
    ('function', (['def f0():'], 1)),
    ('method', (['class C0:', '    def m0(self):'], 2)),
    ('nested-function', (['def f0():', '    def g0():'], 2)),
    ('function-in-class-in-function', (['def f0():', '    class C1:', '        def m1(self):'], 3)),
    ('class-in-function', (['def f0():', '    class C1:'], 2)),
    ('async-function', (['async def f0():'], 1)),
])


def gen_module(bkind, skind, shape, second=None):
    lines = BINDINGS[bkind]
    if lines is None:
        return None
    if bkind == 'star-import' and skind != 'module':
        return None
    name = SHAPES[shape]
    head, ind = SCOPES[skind]
    out = list(head)
    for ln in lines:
        out.append('    ' * ind + ln.replace('{N}', name))
    if second:
        for ln in BINDINGS[second]:
            out.append('    ' * ind + ln.replace('{N}', name))
    return '\n'.join(out) + '\n'


def gen_cases(tier):
    for b in BINDINGS:
        for s in SCOPES:
            for sh in SHAPES:
                t = gen_module(b, s, sh)
                if t:
                    yield ('%s/%s/%s' % (b, s, sh), t)
    # the same cases next to a function that calls locals() (the exemption is for THAT function's locals only),
    # and with the binding made in both branches of an if (a conditionally bound name)
    for b in BINDINGS:
        for s_ in ('module', 'function', 'class', 'method'):
            t = gen_module(b, s_, 'plain')
            if not t:
                continue
            yield ('%s/%s/plain+locals-elsewhere' % (b, s_), t + 'def uses_locals(q=1):\n    return locals()\n')
            if s_ == 'function':
                yield ('%s/%s/plain+locals-here' % (b, s_), t + '    return locals()\n')
    for b in ('assign', 'import-as', 'from-import', 'def', 'with-target'):
        for s_ in ('module', 'function', 'class', 'method', 'nested-function'):
            head, ind = SCOPES[s_]
            pad = '    ' * ind
            body = [pad + 'if C0:'] + [pad + '    ' + l.replace('{N}', 'nm') for l in BINDINGS[b]] + [pad + 'else:'] + [pad + '    ' + l.replace('{N}', 'nm') for l in BINDINGS[b]]
            t = 'C0 = 1\n' + '\n'.join(list(head) + body) + '\n'
            yield ('cond:%s/%s' % (b, s_), t)
            yield ('cond:%s/%s+locals-elsewhere' % (b, s_), t + 'def uses_locals(q=1):\n    return locals()\n')
            yield ('cond:%s/%s+locals-in-nested' % (b, s_), t + pad + 'def inner_locals():\n' + pad + '    return locals()\n' if ind else t + 'def inner_locals():\n    return locals()\n')
    # __future__ import (module level only) and method parameters
    yield ('future-import/module/plain', 'from __future__ import division\n')
    for sh in SHAPES:
        yield ('method-param/class/%s' % sh, 'class C0:\n    def m0(self, %s):\n        pass\n' % SHAPES[sh])
        yield ('method-lambda-param/class/%s' % sh, 'class C0:\n    m0 = lambda self, %s: 0\n' % SHAPES[sh])
        yield ('nested-method-param/%s' % sh, 'class C0:\n    def m0(self):\n        def inner(%s):\n            pass\n        inner(1)\n' % SHAPES[sh])
    # pairs: two bindings of one identifier (at-most-once per binding, each at its own position)
    pair_kinds = ['assign', 'for-target', 'with-target', 'import-as', 'from-import', 'def', 'walrus', 'except-name']
    for a, b in itertools.product(pair_kinds, repeat=2):
        for s in ('module', 'function', 'class', 'method'):
            t = gen_module(a, s, 'plain', second=b)
            if t:
                yield ('pair:%s+%s/%s' % (a, b, s), t)


def unit_gen(arg):
    tier, lo, hi = arg
    part = Part()
    for label, text in list(gen_cases(tier))[lo:hi]:
        try:
            ast.parse(text)
        except SyntaxError:
            part.count('generated_invalid')
            continue
        part.count('evaluations')
        part.count('generated_modules')
        for sig, what in check_text(text, 'gen.py', label, part):
            part.violation(sig + ':' + label.split('/')[0] + '/' + (label.split('/')[1] if '/' in label else ''), what + '\n--- source ---\n' + text, {'kind': 'text', 'text': text, 'label': label})
        part.outcome(label)
        if label.startswith(('with-target/method', 'pair:assign+for')):
            part.sample({'case': label, 'source': text}, limit=3)
    return part


def unit_file(path):
    part = Part()
    text = corpus.read(path)
    if text is None:
        part.count('files_skipped')
        return part
    part.count('evaluations')
    part.count('files')
    for sig, what in check_text(text, path, os.path.basename(path), part):
        part.violation(sig, what, {'kind': 'file', 'path': path})
    part.outcome(path)
    return part


def _dispatch(u):
    return u[0](u[1])


def replay(w):
    p = Part()
    if w['kind'] == 'text':
        lab = w['label']
        return [(s + ':' + lab.split('/')[0] + '/' + (lab.split('/')[1] if '/' in lab else ''), wh) for s, wh in check_text(w['text'], 'gen.py', lab, p)]
    return check_text(corpus.read(w['path']), w['path'], os.path.basename(w['path']), p)


def run(ctx):
    ctx.level = 'exploration'
    n = sum(1 for _ in gen_cases(ctx.tier))
    step = 60
    units = [(unit_gen, (ctx.tier, lo, min(n, lo + step))) for lo in range(0, n, step)]
    units += [(unit_file, f) for f in corpus.files(ctx.tier)]
    ctx.pmap(_dispatch, ctx.shuffled(units), chunksize=2)
    c = ctx.counters
    ctx.counters['distinct_nontrivial'] = int(c['generated_modules']) + int(c['files'])
    ctx.coverage.update({
        'rule': 'full product binding kind (%d) x scope kind (%d) x name shape (3) with the binding never read, pairs of bindings of one identifier, '
                'and every corpus file restricted to never-read identifiers; a case is one module; distinct_nontrivial = modules compared' % (len(BINDINGS), len(SCOPES)),
        'generated_modules': int(c['generated_modules']),
        'files': int(c['files']),
        'bindings_expected_reported': int(c['bindings_expected_reported']),
    })
    ctx.assumptions += [
        'reference = the syntactic rule of the statement evaluated on the AST (mc/c10.py Ref); bindings under global/nonlocal are not classified by the statement and are excluded',
        'files on which lint crashes are counted and left to C08',
    ]
