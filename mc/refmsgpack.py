"""Reference MessagePack codec written from the specification (struct only).

Value model used by the reference (independent of supp.umsgpack):
    None, bool, int, float, str, bytes, list, dict, ('ext', type:int8, data:bytes)
"""
import struct


class Insufficient(Exception):
    pass


class Reject(Exception):
    pass


class KeyLimit(Exception):
    """map key that a Python dict cannot hold (unhashable / duplicate): outside the compared domain"""


def _hdr_len(kind, n, form=None):
    """header bytes for a length-prefixed family in the requested form (None = minimal)."""
    forms = {
        'str': [('fix', 31), (8, 2**8 - 1), (16, 2**16 - 1), (32, 2**32 - 1)],
        'bin': [(8, 2**8 - 1), (16, 2**16 - 1), (32, 2**32 - 1)],
        'array': [('fix', 15), (16, 2**16 - 1), (32, 2**32 - 1)],
        'map': [('fix', 15), (16, 2**16 - 1), (32, 2**32 - 1)],
    }[kind]
    if form is None:
        form = next(f for f, mx in forms if n <= mx)
    else:
        assert n <= dict(forms)[form]
    if kind == 'str':
        return {'fix': lambda: bytes([0xa0 | n]), 8: lambda: b'\xd9' + struct.pack('B', n),
                16: lambda: b'\xda' + struct.pack('>H', n), 32: lambda: b'\xdb' + struct.pack('>I', n)}[form]()
    if kind == 'bin':
        return {8: lambda: b'\xc4' + struct.pack('B', n), 16: lambda: b'\xc5' + struct.pack('>H', n),
                32: lambda: b'\xc6' + struct.pack('>I', n)}[form]()
    if kind == 'array':
        return {'fix': lambda: bytes([0x90 | n]), 16: lambda: b'\xdc' + struct.pack('>H', n),
                32: lambda: b'\xdd' + struct.pack('>I', n)}[form]()
    return {'fix': lambda: bytes([0x80 | n]), 16: lambda: b'\xde' + struct.pack('>H', n),
            32: lambda: b'\xdf' + struct.pack('>I', n)}[form]()


def len_forms(kind, n):
    forms = {
        'str': [('fix', 31), (8, 2**8 - 1), (16, 2**16 - 1), (32, 2**32 - 1)],
        'bin': [(8, 2**8 - 1), (16, 2**16 - 1), (32, 2**32 - 1)],
        'array': [('fix', 15), (16, 2**16 - 1), (32, 2**32 - 1)],
        'map': [('fix', 15), (16, 2**16 - 1), (32, 2**32 - 1)],
    }[kind]
    return [f for f, mx in forms if n <= mx]


INT_FORMS = [
    ('pfix', 0, 127, None), ('nfix', -32, -1, None),
    ('u8', 0, 2**8 - 1, (b'\xcc', 'B')), ('u16', 0, 2**16 - 1, (b'\xcd', '>H')),
    ('u32', 0, 2**32 - 1, (b'\xce', '>I')), ('u64', 0, 2**64 - 1, (b'\xcf', '>Q')),
    ('i8', -2**7, 2**7 - 1, (b'\xd0', 'b')), ('i16', -2**15, 2**15 - 1, (b'\xd1', '>h')),
    ('i32', -2**31, 2**31 - 1, (b'\xd2', '>i')), ('i64', -2**63, 2**63 - 1, (b'\xd3', '>q')),
]


def int_forms(n):
    return [f for f, lo, hi, _ in INT_FORMS if lo <= n <= hi]


def enc_int(n, form=None):
    if form is None:
        if n >= 0:
            order = ['pfix', 'u8', 'u16', 'u32', 'u64']
        else:
            order = ['nfix', 'i8', 'i16', 'i32', 'i64']
        ok = int_forms(n)
        form = next((f for f in order if f in ok), None)
        if form is None:
            raise OverflowError(n)
    for f, lo, hi, how in INT_FORMS:
        if f == form:
            assert lo <= n <= hi
            if f == 'pfix':
                return bytes([n])
            if f == 'nfix':
                return struct.pack('b', n)
            return how[0] + struct.pack(how[1], n)
    raise AssertionError(form)


def ext_forms(n):
    out = []
    if n in (1, 2, 4, 8, 16):
        out.append('fix')
    out += [f for f, mx in ((8, 2**8 - 1), (16, 2**16 - 1), (32, 2**32 - 1)) if n <= mx]
    return out


def enc_ext(typ, data, form=None):
    n = len(data)
    if form is None:
        form = ext_forms(n)[0]
    t = struct.pack('b', typ)
    if form == 'fix':
        return bytes([{1: 0xd4, 2: 0xd5, 4: 0xd6, 8: 0xd7, 16: 0xd8}[n]]) + t + data
    if form == 8:
        return b'\xc7' + struct.pack('B', n) + t + data
    if form == 16:
        return b'\xc8' + struct.pack('>H', n) + t + data
    return b'\xc9' + struct.pack('>I', n) + t + data


def encode(v, form=None):
    """Minimal encoding, or for the top node the requested alternative legal form."""
    if v is None:
        return b'\xc0'
    if v is True:
        return b'\xc3'
    if v is False:
        return b'\xc2'
    if isinstance(v, int):
        return enc_int(v, form)
    if isinstance(v, float):
        if form == 'f32':
            return b'\xca' + struct.pack('>f', v)
        return b'\xcb' + struct.pack('>d', v)
    if isinstance(v, str):
        b = v.encode('utf-8')
        return _hdr_len('str', len(b), form) + b
    if isinstance(v, bytes):
        return _hdr_len('bin', len(v), form) + v
    if isinstance(v, tuple) and v and v[0] == 'ext':
        return enc_ext(v[1], v[2], form)
    if isinstance(v, (list, tuple)):
        return _hdr_len('array', len(v), form) + b''.join(encode(e) for e in v)
    if isinstance(v, dict):
        return _hdr_len('map', len(v), form) + b''.join(encode(k) + encode(x) for k, x in v.items())
    raise TypeError(type(v))


def forms_of(v):
    """All legal top-level forms for value v (first one is the minimal form)."""
    if v is None or isinstance(v, bool):
        return [None]
    if isinstance(v, int):
        fs = int_forms(v)
        mn = 'pfix' if 0 <= v <= 127 else None
        return fs
    if isinstance(v, float):
        fs = [None]
        try:
            if struct.unpack('>f', struct.pack('>f', v))[0] == v or v != v:
                fs.append('f32')
        except OverflowError:
            pass
        return fs
    if isinstance(v, str):
        return len_forms('str', len(v.encode('utf-8')))
    if isinstance(v, bytes):
        return len_forms('bin', len(v))
    if isinstance(v, tuple) and v and v[0] == 'ext':
        return ext_forms(len(v[2]))
    if isinstance(v, (list, tuple)):
        return len_forms('array', len(v))
    if isinstance(v, dict):
        return len_forms('map', len(v))
    raise TypeError(type(v))


class _R(object):
    def __init__(self, b):
        self.b = b
        self.i = 0

    def take(self, n):
        if self.i + n > len(self.b):
            raise Insufficient()
        r = self.b[self.i:self.i + n]
        self.i += n
        return r


def _dec(r):
    c = r.take(1)[0]
    if c <= 0x7f:
        return c
    if c >= 0xe0:
        return c - 256
    if 0x80 <= c <= 0x8f:
        return _map(r, c & 0x0f)
    if 0x90 <= c <= 0x9f:
        return [_dec(r) for _ in range(c & 0x0f)]
    if 0xa0 <= c <= 0xbf:
        return _str(r, c & 0x1f)
    if c == 0xc0:
        return None
    if c == 0xc1:
        raise Reject('reserved')
    if c == 0xc2:
        return False
    if c == 0xc3:
        return True
    if c in (0xc4, 0xc5, 0xc6):
        n = _uint(r, {0xc4: 1, 0xc5: 2, 0xc6: 4}[c])
        return bytes(r.take(n))
    if c in (0xc7, 0xc8, 0xc9):
        n = _uint(r, {0xc7: 1, 0xc8: 2, 0xc9: 4}[c])
        t = struct.unpack('b', r.take(1))[0]
        return ('ext', t, bytes(r.take(n)))
    if c == 0xca:
        return struct.unpack('>f', r.take(4))[0]
    if c == 0xcb:
        return struct.unpack('>d', r.take(8))[0]
    if 0xcc <= c <= 0xcf:
        return _uint(r, 1 << (c - 0xcc))
    if 0xd0 <= c <= 0xd3:
        k = 1 << (c - 0xd0)
        return int.from_bytes(r.take(k), 'big', signed=True)
    if 0xd4 <= c <= 0xd8:
        n = 1 << (c - 0xd4)
        t = struct.unpack('b', r.take(1))[0]
        return ('ext', t, bytes(r.take(n)))
    if c in (0xd9, 0xda, 0xdb):
        return _str(r, _uint(r, {0xd9: 1, 0xda: 2, 0xdb: 4}[c]))
    if c in (0xdc, 0xdd):
        n = _uint(r, 2 if c == 0xdc else 4)
        return [_dec(r) for _ in range(n)]
    if c in (0xde, 0xdf):
        return _map(r, _uint(r, 2 if c == 0xde else 4))
    raise AssertionError(c)


def _uint(r, k):
    return int.from_bytes(r.take(k), 'big')


def _str(r, n):
    b = r.take(n)
    try:
        return bytes(b).decode('utf-8')
    except UnicodeDecodeError:
        raise Reject('utf8')


def _freeze(k):
    if isinstance(k, list):
        return tuple(_freeze(e) for e in k)
    return k


def _map(r, n):
    d = {}
    for _ in range(n):
        k = _dec(r)
        k = _freeze(k)
        try:
            hash(k)
        except TypeError:
            raise KeyLimit('unhashable')
        if isinstance(k, tuple) and k and k[0] == 'ext':
            raise KeyLimit('ext key')
        if k in d:
            raise KeyLimit('duplicate')
        v = _dec(r)
        d[k] = v
    return d


def decode(b):
    """Decode the first object in b (trailing bytes ignored, like supp's loads)."""
    return _dec(_R(b))
