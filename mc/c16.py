"""C16 - exactly one server under every interleaving; close and disconnect end it.

E1 over thread schedules: the real ``supp.remote.Environment`` runs on real threads under the
cooperative scheduler of mc/sched.py; a scheduling point precedes every source line of
supp/remote.py.  ``Popen``, ``Client``, ``time``, ``Lock`` and ``Thread`` are replaced by
instrumented fakes for the duration of one execution.  Iterative preemption bounding.

A second part runs the real client against real server subprocesses at enumerated fault
points (close, client disconnect at each protocol position, launch failure).
"""
import os
import sys
import time as _time
import subprocess
import collections
import multiprocessing.connection as mpc

from .common import Part, HarnessError
from . import e1
from .sched import Sched, SLock, SThread

import supp.remote as R
from supp.umsgpack import dumps, loads

REMOTE_FILE = R.__file__
CALL = ('assist', ('s', (1, 1), 'f'))


# ------------------------------------------------------------------ the fake world

class FakeProc(object):
    def __init__(self, world, args):
        self.world = world
        self.addr = args[-1]
        self.conn = None
        self.got_close = False
        self.terminated = False
        self.dead = False          # crashed / killed from outside: the connection is broken from now on

    def terminate(self):
        self.terminated = True

    kill = terminate

    def poll(self):
        return 0 if self.ended else None

    def wait(self, timeout=None):
        return 0

    def die(self):
        self.dead = True

    @property
    def ended(self):
        """the real server leaves its loop on a close request or when the client end is closed"""
        return self.got_close or self.terminated or self.dead or (self.conn is not None and self.conn.closed)


class FakeConn(object):
    def __init__(self, proc):
        self.proc = proc
        self.q = collections.deque()
        self.closed = False
        self.serial = 0

    def send_bytes(self, b):
        if self.closed:
            raise OSError('handle is closed')
        if self.proc.dead:
            raise BrokenPipeError('server gone')
        req = loads(b)
        if req[0] == 'close':
            self.proc.got_close = True
            return
        if self.proc.got_close:
            raise BrokenPipeError('server gone')
        self.q.append(req)

    def recv_bytes(self):
        if self.closed:
            raise OSError('handle is closed')
        if self.proc.dead or not self.q:
            raise EOFError('no reply pending')
        # like the real server: requests are answered in the order they arrive, whoever reads
        req = self.q.popleft()
        self.serial += 1
        return dumps((['reply', req[0], req[1][0]], True))

    def close(self):
        self.closed = True


class FakeTime(object):
    def __init__(self):
        self.now = 1000.0

    def time(self):
        return self.now

    def sleep(self, x):
        # a sleep may legitimately overshoot; jump far enough that a failing connect loop ends after 3 rounds
        self.now += max(x, 2.0)


class World(object):
    def __init__(self, client_fail):
        self.client_fail = client_fail     # 0, 1 or 'always'
        self.procs = []
        self.attempts = 0
        self.time = FakeTime()

    def popen(self, args, env=None, **kw):
        p = FakeProc(self, args)
        self.procs.append(p)
        return p

    def client(self, addr):
        self.attempts += 1
        if self.client_fail == 'always' or (self.client_fail and self.attempts <= self.client_fail):
            raise ConnectionRefusedError('server not listening yet')
        for p in self.procs:
            if p.addr == addr and p.conn is None:
                p.conn = FakeConn(p)
                return p.conn
        raise ConnectionRefusedError('no process listens on %r' % (addr,))


# ------------------------------------------------------------------ scenarios

# a program is a list of steps; a step is 'prepare' | 'call' | 'close' | ('par', [prog, prog, ...])
SCENARIOS = collections.OrderedDict([
    ('prepare;call || call',            dict(prog=[('par', [['prepare', 'call'], ['call']])])),
    ('prepare || call',                 dict(prog=[('par', [['prepare'], ['call']])])),
    ('call || call',                    dict(prog=[('par', [['call'], ['call']])])),
    ('prepare;call || prepare;call',    dict(prog=[('par', [['prepare', 'call'], ['prepare', 'call']])])),
    ('prepare;close',                   dict(prog=['prepare', 'close'])),
    ('prepare;call;close',              dict(prog=['prepare', 'call', 'close'])),
    ('call;close;call',                 dict(prog=['call', 'close', 'call'])),
    ('prepare;close;prepare;call;close', dict(prog=['prepare', 'close', 'prepare', 'call', 'close'])),
    ('prepare || close',                dict(prog=[('par', [['prepare'], ['close']])])),
    ('prepare;prepare || close;call',   dict(prog=[('par', [['prepare', 'prepare'], ['close', 'call']])])),
    ('(prepare;call || call);close;(call || prepare;call);close',
        dict(prog=[('par', [['prepare', 'call'], ['call']]), 'close', ('par', [['call'], ['prepare', 'call']]), 'close'], long=True)),
    ('connect-retry: prepare;call || call', dict(prog=[('par', [['prepare', 'call'], ['call']])], client_fail=1)),
    ('connect-retry: prepare;close',    dict(prog=['prepare', 'close'], client_fail=1)),
    ('3 threads: prepare;call || call || call', dict(prog=[('par', [['prepare', 'call'], ['call'], ['call']])], three=True)),
    ('3 threads: prepare || call || close', dict(prog=[('par', [['prepare'], ['prepare', 'call'], ['close']])], three=True, close_vs_call=True)),
    ('server-dies: call;die;close;call;close', dict(prog=['call', 'die', 'close', 'call', 'close'])),
    ('server-dies: prepare;call;die;close;prepare;call;close', dict(prog=['prepare', 'call', 'die', 'close', 'prepare', 'call', 'close'])),
    ('launch-failure: call',            dict(prog=['call'], client_fail='always')),
    ('launch-failure: prepare;call',    dict(prog=['prepare', 'call'], client_fail='always')),
    ('launch-failure: prepare || call', dict(prog=[('par', [['prepare'], ['call']])], client_fail='always')),
])
# close() concurrent with a *call* of another thread is outside the statement (any lock-free client breaks there);
# the one scenario marked close_vs_call only asserts absence of deadlock/unexpected exception classes.


def flat_ops(prog):
    for st in prog:
        if isinstance(st, tuple):
            for p in st[1]:
                for o in flat_ops(p):
                    yield o
        else:
            yield st


def expected_launches(prog):
    """sequential phases separated by top-level close; a phase that uses the client launches one server."""
    n, used = 0, False
    for st in prog:
        if st == 'close':
            n += used
            used = False
        elif st == 'die':
            pass
        else:
            ops = list(flat_ops([st]))
            if 'prepare' in ops or 'call' in ops:
                used = True
    return n + used


def visible_lines():
    """lines of supp/remote.py whose statement mentions self, a module-level name of supp.remote that is not a plain
    function/class of its own (threading, time, Popen, ...), or a local that may alias something reached through
    those (intra-function taint: assigned from an expression mentioning a shared or tainted name).  All other
    lines only compute on private locals and commute with every step of every other thread."""
    import ast
    src = open(REMOTE_FILE).read()
    tree = ast.parse(src)
    shared0 = {'self', 'Popen', 'Client', 'time', 'sleep', 'Thread', 'Lock', 'RLock', 'threading', 'subprocess', 'connection',
               'multiprocessing'}
    for node in tree.body:
        if isinstance(node, (ast.Import, ast.ImportFrom)):
            for a in node.names:
                shared0.add((a.asname or a.name).split('.')[0])
        elif isinstance(node, (ast.Assign, ast.AnnAssign, ast.AugAssign)):
            for n in ast.walk(node):
                if isinstance(n, ast.Name) and isinstance(n.ctx, ast.Store):
                    shared0.add(n.id)
    shared0 -= {'sys', 'os', 'dumps', 'loads', 'umsgpack'}       # pure helpers (codec, paths)

    # attributes of self that are written (or deleted) anywhere but in __init__; reading any other attribute of self
    # (executable, env, logfile, the methods) commutes with everything
    mutable = set()
    for fn in ast.walk(tree):
        if isinstance(fn, (ast.FunctionDef, ast.AsyncFunctionDef)) and fn.name != '__init__':
            for n in ast.walk(fn):
                if isinstance(n, ast.Attribute) and isinstance(n.ctx, (ast.Store, ast.Del)):
                    mutable.add(n.attr)
                elif isinstance(n, ast.Call) and getattr(n.func, 'id', None) in ('setattr', 'delattr', 'hasattr', 'getattr', 'vars'):
                    for a in n.args[1:2]:
                        mutable.add(a.value if isinstance(a, ast.Constant) else '*')

    methods = {n.name for c in tree.body if isinstance(c, ast.ClassDef) for n in c.body if isinstance(n, ast.FunctionDef)}

    def names(node):
        out = {n.id for n in ast.walk(node) if isinstance(n, ast.Name)}
        if 'self' in out and '*' not in mutable:
            # self.<never reassigned attribute> used as a plain value, or self.<method>(...): nothing another thread can
            # influence.  An attribute that is itself dereferenced (self.prepare_lock.acquire(), `with self.prepare_lock`,
            # self.conn.send_bytes) operates on a shared object and stays visible.
            loud_ids = set()
            for n in ast.walk(node):
                if isinstance(n, ast.Attribute) and isinstance(n.value, ast.Attribute):
                    loud_ids.add(id(n.value))
                elif isinstance(n, ast.Subscript) and isinstance(n.value, ast.Attribute):
                    loud_ids.add(id(n.value))
                elif isinstance(n, ast.withitem):
                    loud_ids.add(id(n.context_expr))
                elif isinstance(n, ast.Call) and isinstance(n.func, ast.Attribute) and n.func.attr not in methods:
                    loud_ids.add(id(n.func))
            if isinstance(node, list):
                pass
            quiet = sum(1 for n in ast.walk(node) if isinstance(n, ast.Attribute) and isinstance(n.value, ast.Name)
                        and n.value.id == 'self' and isinstance(n.ctx, ast.Load) and n.attr not in mutable and id(n) not in loud_ids)
            total = sum(1 for n in ast.walk(node) if isinstance(n, ast.Name) and n.id == 'self')
            if quiet == total:
                out.discard('self')
        return out

    vis = set()
    funcs = [n for n in ast.walk(tree) if isinstance(n, (ast.FunctionDef, ast.AsyncFunctionDef, ast.Lambda))]
    for fn in funcs + [tree]:
        shared = set(shared0)
        body = list(ast.walk(fn))
        changed = True
        while changed:
            changed = False
            for node in body:
                tgt = val = None
                if isinstance(node, ast.Assign):
                    tgt, val = node.targets, node.value
                elif isinstance(node, (ast.AnnAssign, ast.AugAssign)) and node.value is not None:
                    tgt, val = [node.target], node.value
                elif isinstance(node, ast.NamedExpr):
                    tgt, val = [node.target], node.value
                elif isinstance(node, (ast.For, ast.comprehension)):
                    tgt, val = [node.target], node.iter
                elif isinstance(node, ast.withitem) and node.optional_vars is not None:
                    tgt, val = [node.optional_vars], node.context_expr
                if tgt is None or not (names(val) & shared):
                    continue
                for t in tgt:
                    for n in ast.walk(t):
                        if isinstance(n, ast.Name) and n.id not in shared:
                            shared.add(n.id)
                            changed = True
        for node in body:
            if isinstance(node, ast.stmt) and not isinstance(node, (ast.FunctionDef, ast.AsyncFunctionDef, ast.ClassDef, ast.If, ast.While,
                                                                    ast.For, ast.Try, ast.With)):
                if names(node) & shared:
                    for ln in range(node.lineno, node.end_lineno + 1):
                        vis.add((REMOTE_FILE, ln))
            elif isinstance(node, (ast.If, ast.While, ast.With, ast.For)):
                if isinstance(node, ast.With):
                    hdr = node.items
                elif isinstance(node, ast.For):
                    hdr = [node.iter, node.target]
                else:
                    hdr = [node.test]
                if any(names(h) & shared for h in hdr):
                    vis.add((REMOTE_FILE, node.lineno))
    return vis


class _Namespace(object):
    """stand-in for a module object bound in supp.remote (threading / time / subprocess / multiprocessing.connection):
    the faked members first, everything else from the real module"""
    def __init__(self, real, **fakes):
        self.__dict__['_real'] = real
        self.__dict__.update(fakes)

    def __getattr__(self, name):
        return getattr(self.__dict__['_real'], name)


def patch_remote(s, world):
    """Put the scheduler's Lock/Thread, the fake clock and the fake process/connection world behind whatever
    names supp.remote uses for them - `from threading import Thread, Lock` or `import threading`, `import time` or
    `from time import time, sleep`, Popen/Client imported inside _run or at module level.  -> undo list"""
    import threading
    import time as real_time
    undo = []

    def put(obj, attr, val):
        undo.append((obj, attr, getattr(obj, attr)))
        setattr(obj, attr, val)

    mk_lock = lambda: SLock(s)                                                    # noqa
    mk_thread = lambda group=None, target=None, **kw: SThread(s, target=target, **kw)   # noqa
    put(subprocess, 'Popen', world.popen)
    put(mpc, 'Client', world.client)
    for name, val in list(vars(R).items()):
        if val is threading.Lock or val is threading.RLock:
            put(R, name, mk_lock)
        elif val is threading.Thread:
            put(R, name, mk_thread)
        elif val is threading:
            put(R, name, _Namespace(threading, Lock=mk_lock, RLock=mk_lock, Thread=mk_thread))
        elif val is real_time:
            put(R, name, world.time)
        elif val is real_time.time:
            put(R, name, world.time.time)
        elif val is real_time.sleep:
            put(R, name, world.time.sleep)
        elif val is undo[0][2]:           # the real subprocess.Popen imported at module level
            put(R, name, world.popen)
        elif val is undo[1][2]:           # the real multiprocessing.connection.Client
            put(R, name, world.client)
        elif val is subprocess:
            put(R, name, _Namespace(subprocess, Popen=world.popen))
        elif val is mpc:
            put(R, name, _Namespace(mpc, Client=world.client))
    return undo


_VIS = None


def _simple(v):
    if v is None or isinstance(v, (bool, int, float, str)):
        return repr(v)[:40]
    return type(v).__name__


def run_scenario(name, ch, stateful=False):
    sc = SCENARIOS[name]
    world = World(sc.get('client_fail', 0))
    results = []
    box = {}

    def state_fn(s, me):
        """everything the future of the run depends on (for state matching in the unbounded search)"""
        env = box.get('env')
        ths = []
        for t in s.threads:
            stack = []
            f = t.get('frame')
            while f is not None and not t['done']:
                if f.f_code.co_filename == REMOTE_FILE:
                    stack.append((f.f_code.co_name, f.f_lineno, tuple(sorted((k, _simple(v)) for k, v in f.f_locals.items() if k != 'self'))))
                f = f.f_back
            ths.append((t['name'].split('.')[0].rstrip('0123456789'), t['done'], t['started'] if 'started' in t else None, tuple(stack), t['exc'] is not None))
        pt = getattr(env, 'prepare_thread', None)
        conn = getattr(env, 'conn', None)
        lock = getattr(env, 'prepare_lock', None)
        shared = (None if pt is None else (pt.info is not None, bool(pt.info and pt.info['done'])),
                  None if conn is None else (conn.closed, len(conn.q)), getattr(lock, 'owner', None),
                  tuple((p.conn is not None, p.conn is not None and p.conn.closed, p.got_close) for p in world.procs),
                  world.attempts, world.time.now, tuple(sorted(map(str, results))), me['tid'])
        return hash((tuple(ths), shared))

    global _VIS
    if stateful and _VIS is None:
        _VIS = visible_lines()
    s = Sched(ch, [REMOTE_FILE], state_fn=state_fn if stateful else None, visible=_VIS if stateful else None)

    s.on_timeout = lambda t: setattr(world.time, 'now', world.time.now + t)
    undo = patch_remote(s, world)
    try:
        env = R.Environment()
        box['env'] = env

        def do(prog, who):
            for st in prog:
                if isinstance(st, tuple):
                    ths = [SThread(s, target=do, args=(p, '%s.%d' % (who, i)), name='user%s.%d' % (who, i))
                           for i, p in enumerate(st[1])]
                    for t in ths:
                        t.start()
                    for t in ths:
                        t.join()
                elif st == 'prepare':
                    env.prepare()
                elif st == 'close':
                    env.close()
                    results.append((who, 'close', 'ok'))
                elif st == 'die':
                    world.procs[-1].die()        # the server process crashes / is killed from outside
                else:
                    tag = 'call-of-%s-%d' % (who or 'main', len(results))
                    try:
                        r = getattr(env, CALL[0])(tag, *CALL[1][1:])
                    except Exception as e:
                        results.append((who, 'call', 'exc', type(e).__name__, str(e)[:60]))
                        raise
                    if isinstance(r, list) and r[:2] == ['reply', 'assist']:
                        results.append((who, 'call', 'reply' if r[2] == tag else 'reply-to-another-call'))
                    else:
                        results.append((who, 'call', repr(r)))

        s.spawn(lambda: do(sc['prog'], ''), 'driver')
        s.run()
    finally:
        for obj, attr, val in reversed(undo):
            setattr(obj, attr, val)
    return observe(name, sc, s, world, results, env)


def where(exc):
    tb = exc.__traceback__
    last = None
    while tb:
        if tb.tb_frame.f_code.co_filename == REMOTE_FILE:
            last = tb.tb_frame.f_code.co_name
        tb = tb.tb_next
    return last or '?'


def observe(name, sc, s, world, results, env):
    """-> observation dict (JSON-able, deterministic) including the list of violated oracles."""
    bad = []
    fail_world = sc.get('client_fail') == 'always'
    excs = []
    for t in s.threads:
        if t['exc'] is not None:
            e = t['exc']
            excs.append((t['name'].split('.')[0].rstrip('0123456789'), type(e).__name__, where(e), str(e)[:50]))
    if s.deadlock:
        bad.append(('deadlock', 'no enabled thread while some thread is unfinished'))
    if s.horizon_hit:
        bad.append(('livelock', 'horizon of %d scheduling steps exceeded' % s.horizon))
    ncalls = sum(1 for o in flat_ops(sc['prog']) if o == 'call')
    replies = sum(1 for r in results if r[1] == 'call' and r[2] == 'reply')
    if not s.deadlock and not s.horizon_hit:
        if fail_world:
            # launch failure must surface as an exception in the caller, never as a hang or a bogus reply
            callers = [r for r in results if r[1] == 'call']
            if ncalls and not any(r[2] == 'exc' for r in callers):
                bad.append(('launch-failure-not-surfaced', 'calls=%r' % (callers,)))
            for tn, en, fn, msg in excs:
                if not (en == 'Exception' and 'launching timeout' in msg):
                    bad.append(('thread-exception:%s:%s' % (en, fn), '%s in %s thread: %s' % (en, tn, msg)))
            live = [p for p in world.procs if not p.ended]
            if live:
                bad.append(('server-abandoned-after-failed-start', '%d of %d launched processes were given up on (connect timeout) but never ended: '
                            'they come up later and wait for a client for ever' % (len(live), len(world.procs))))
        else:
            for tn, en, fn, msg in excs:
                if sc.get('close_vs_call') and en in ('OSError', 'EOFError', 'BrokenPipeError', 'AttributeError') and fn in ('_call', 'close'):
                    continue
                bad.append(('thread-exception:%s:%s' % (en, fn), '%s in %s thread: %s' % (en, tn, msg)))
            if not excs:
                swapped = [r for r in results if r[1] == 'call' and r[2] == 'reply-to-another-call']
                if swapped:
                    bad.append(('call-answered-with-another-reply', '%d of %d calls got the reply to another thread\'s request: %r' % (len(swapped), ncalls, results)))
                elif replies != ncalls:
                    bad.append(('call-unanswered', '%d calls, %d replies: %r' % (ncalls, replies, results)))
                exp = expected_launches(sc['prog'])
                close_in_par = any(isinstance(st, tuple) and 'close' in flat_ops([st]) for st in sc['prog'])
                if close_in_par:
                    # a close() racing with prepare()/call legitimately splits the session at a schedule-dependent point
                    ncl = sum(1 for o in flat_ops(sc['prog']) if o == 'close')
                    if not (1 <= len(world.procs) <= exp + ncl):
                        bad.append(('launches:%d-expected:%d..%d' % (len(world.procs), 1, exp + ncl), 'launch count out of range'))
                elif len(world.procs) != exp:
                    bad.append(('launches:%d-expected:%d' % (len(world.procs), exp),
                                '%d server processes launched, expected exactly %d' % (len(world.procs), exp)))
                orphans = [p for p in world.procs if p.conn is None]
                if orphans:
                    bad.append(('server-without-connection', '%d launched servers never got a client connection' % len(orphans)))
                if sc['prog'][-1] == 'close':
                    live = [p for p in world.procs if not p.ended]
                    if live:
                        bad.append(('server-survives-close', 'after the final close() and quiescence %d of %d launched servers '
                                    'have neither a close request nor a closed connection' % (len(live), len(world.procs))))
                    if hasattr(env, 'conn'):
                        bad.append(('session-not-forgotten', 'client still holds a connection after close()'))
    return {
        'launches': len(world.procs),
        'ended': [p.ended for p in world.procs],
        'excs': sorted(set(excs)),
        'results': sorted(tuple(r) for r in results),
        'deadlock': s.deadlock,
        'bad': bad,
        'steps': s.steps,
    }


# ------------------------------------------------------------------ exploration units

def record(p, name, x):
    if True:
        p.count('evaluations')
        p.count('schedules')
        p.count('schedules_dev%d' % x.deviations)
        p.count('choice_points', len(x.trace))
        p.outcome((name, x.obs['launches'], tuple(x.obs['ended']), tuple(map(tuple, x.obs['excs'])), tuple(x.obs['results']), x.obs['deadlock']))
        for sig, what in x.obs['bad']:
            p.violation('%s @ %s' % (sig, name), '%s; scenario [%s], schedule %r (%d preemptions)' % (what, name, x.choices, x.deviations),
                        {'kind': 'schedule', 'scenario': name, 'choices': x.choices, 'deviations': x.deviations})


def unit_explore(arg):
    name, bound, prefix = arg
    p = Part()
    _n, left = e1.explore(lambda ch: run_scenario(name, ch), bound=bound, prefix=prefix,
                          on_exec=lambda x: record(p, name, x), max_exec=250)
    p.leftover = [(name, bound, q) for q in left]
    p.count('sched_by_scenario:' + name, _n)
    return p


def unit_stateful(arg):
    """unbounded search with state matching (no preemption bound), scheduling points only at lines that touch shared state"""
    name, cap = arg
    p = Part()

    def on_exec(x):
        p.count('evaluations')
        p.count('stateful_schedules')
        p.outcome(('stateful', name, x.obs['launches'], tuple(x.obs['ended']), tuple(map(tuple, x.obs['excs'])), tuple(x.obs['results']), x.obs['deadlock']))
        for sig, what in x.obs['bad']:
            p.violation('%s @ %s' % (sig, name), '%s; scenario [%s], schedule %r (unbounded stateful search)' % (what, name, x.choices),
                        {'kind': 'schedule', 'scenario': name, 'choices': x.choices, 'deviations': x.deviations, 'stateful': True})

    n, pairs, left = e1.explore_stateful(lambda ch: run_scenario(name, ch, stateful=True), on_exec=on_exec, max_exec=cap)
    p.count('stateful_state_choice_pairs', pairs)
    p.notes['stateful:' + name] = {'schedules': n, 'state_choice_pairs': pairs, 'closed': not left}
    p.count('stateful_closed' if not left else 'stateful_capped')
    return p


def replay(w):
    if w['kind'] == 'real':
        return real_case(w['case'])
    if w.get('stateful'):
        x = e1.run_once(lambda ch: run_scenario(w['scenario'], ch, stateful=True), w['choices'])
        return [('%s @ %s' % (sig, w['scenario']), what) for sig, what in x.obs['bad']]
    x = e1.run_once(lambda ch: run_scenario(w['scenario'], ch), w['choices'])
    return [('%s @ %s' % (sig, w['scenario']), what) for sig, what in x.obs['bad']]


# ------------------------------------------------------------------ real subprocess fault points

def _wait_exit(proc, timeout=10.0):
    t = _time.time()
    while _time.time() - t < timeout:
        if proc.poll() is not None:
            return True
        _time.sleep(0.05)
    return False


REAL_CASES = ['close', 'close-then-reuse', 'disconnect-before-first-request', 'disconnect-after-reply',
              'disconnect-after-request-before-reply', 'disconnect-mid-frame', 'client-killed', 'launch-failure']


def real_case(case):
    """-> list of (sig, what)"""
    bad = []
    quiet = {'SUPP_LOG_LEVEL': '100'}
    env = R.Environment(env=quiet)
    procs = []
    try:
        return _real_case(case, env, procs, bad, quiet)
    except Exception as e:
        bad.append(('real:%s:raises-%s:%s' % (case, type(e).__name__, where(e)), '%s raised %r' % (case, e)))
        return bad
    finally:
        for pr in procs + [getattr(env, 'proc', None)]:
            if pr is not None and pr.poll() is None:
                pr.kill()
            if pr is not None:
                pr.wait()


def _real_case(case, env, procs, bad, quiet):
    if True:
        if case == 'launch-failure':
            env = R.Environment(executable='/nonexistent/python', env=quiet)
            try:
                env.eval('return 42')
            except Exception:
                pass
            else:
                bad.append(('real:launch-failure-not-surfaced', 'eval() returned although the interpreter does not exist'))
            return bad
        if case == 'client-killed':
            code = ('import sys,time\nsys.path.insert(0,%r)\nimport supp.remote as R\ne=R.Environment(env=dict(SUPP_LOG_LEVEL="100"))\n'
                    'print(e.eval("return 42"));print(e.proc.pid,flush=True)\ntime.sleep(60)\n' % os.path.dirname(os.path.dirname(REMOTE_FILE)))
            client = subprocess.Popen([sys.executable, '-c', code], stdout=subprocess.PIPE, stderr=subprocess.DEVNULL, text=True)
            client.stdout.readline()
            pid = int(client.stdout.readline())
            client.kill()
            client.wait()
            t = _time.time()
            gone = False
            while _time.time() - t < 10:
                try:
                    os.kill(pid, 0)
                except ProcessLookupError:
                    gone = True
                    break
                # a zombie re-parented to init may linger: check state
                try:
                    st = open('/proc/%d/stat' % pid).read().split()[2]
                    if st == 'Z':
                        gone = True
                        break
                except OSError:
                    gone = True
                    break
                _time.sleep(0.05)
            if not gone:
                os.kill(pid, 9)
                bad.append(('real:server-survives-client-kill', 'server pid %d still alive 10 s after its client was killed' % pid))
            return bad

        if case == 'disconnect-before-first-request':
            env.run()
            procs.append(env.proc)
            env.conn.close()
        else:
            r = env.eval('return 42')
            procs.append(env.proc)
            if r != 42:
                bad.append(('real:wrong-reply', 'eval gave %r' % (r,)))
            if case == 'close':
                env.close()
                if hasattr(env, 'conn'):
                    bad.append(('real:session-not-forgotten', 'conn still set after close()'))
            elif case == 'close-then-reuse':
                first = env.proc
                env.close()
                if not _wait_exit(first):
                    bad.append(('real:server-survives-close', 'server still running 10 s after close()'))
                r = env.eval('return 43')
                procs.append(env.proc)
                if env.proc is first or env.proc.poll() is not None:
                    bad.append(('real:no-new-server-after-close', 'call after close() did not launch a new live server'))
                if r != 43:
                    bad.append(('real:wrong-reply', 'eval after close gave %r' % (r,)))
                env.close()
            elif case == 'disconnect-after-reply':
                env.conn.close()
            elif case == 'disconnect-after-request-before-reply':
                env.conn.send_bytes(dumps(('eval', ('return 44',), {})))
                env.conn.close()
            elif case == 'disconnect-mid-frame':
                # a length header announcing 100 bytes followed by 3 bytes, then EOF
                import struct
                os.write(env.conn.fileno(), struct.pack('!i', 100) + b'abc')
                env.conn.close()
        for pr in procs:
            if not _wait_exit(pr):
                bad.append(('real:server-survives-%s' % case, 'server process still running 10 s after %s' % case))
    return bad


def unit_real(case):
    p = Part()
    p.count('evaluations')
    p.count('real_subprocess_cases')
    out = real_case(case)
    p.outcome(('real', case, tuple(s for s, _ in out)))
    for sig, what in out:
        p.violation(sig, what + ' (real subprocess, case %s)' % case, {'kind': 'real', 'case': case})
    p.sample({'space': 'real subprocess fault point', 'case': case})
    return p


# ------------------------------------------------------------------ run

def run(ctx):
    ctx.level = 'model_checking'
    quick = ctx.quick
    bound2 = 2 if quick else 3
    units = []
    plan = []
    for name, sc in SCENARIOS.items():
        if sc.get('three') or sc.get('long'):
            b = 1 if quick else 2
        elif sc.get('client_fail') == 'always':
            b = 1 if quick else 2
        else:
            b = bound2
        plan.append((name, b))
    # split every scenario's tree at the root execution so the pool gets many independent subtrees
    roots = Part()
    firsts = {}
    for name, b in plan:
        x = e1.run_once(lambda ch: run_scenario(name, ch), [])
        firsts[name] = x
        record(roots, name, x)              # the default schedule itself
        for pre in e1.children(x, 0, b):
            units.append((name, b, pre))
    # the subtree of prefix p explored with bound b contains only executions extending p
    ctx.merge(roots)
    # dynamic load balancing: a unit explores at most 250 schedules of its subtree and hands the rest back
    while units:
        more = []
        ctx.pmap(unit_explore, ctx.shuffled(units), chunksize=1, collect=lambda part: more.extend(part.leftover))
        units = more
    # self-test: deterministic replay of the first and of a deep execution per scenario
    for name, b in plan:
        body = lambda ch, name=name: run_scenario(name, ch)
        x = firsts[name]
        kids = e1.children(x, 0, b)
        tests = [[]] + ([kids[-1]] if kids else [])
        e1.self_test(body, tests, same=lambda a, b: a == b)
    # unbounded stateful search (no preemption bound) for the scenarios whose state space closes
    if quick:
        st = [(n, 3000) for n in ('prepare;close', 'prepare;call;close', 'call;close;call', 'connect-retry: prepare;close', 'call || call',
                                  'prepare;close;prepare;call;close')]
    else:
        # measured: 'prepare;call || call' closes after 63 000 schedules, 'prepare;prepare || close;call' after 90 000; the
        # three-thread, connect-retry and 'prepare;call || prepare;call' scenarios do not close within 400 000 and are left to the bounded search
        st = [(n, 150000) for n in ('prepare;close', 'prepare;call;close', 'call;close;call', 'prepare;close;prepare;call;close', 'connect-retry: prepare;close',
                                    'call || call', 'prepare || close', 'prepare || call', 'prepare;call || call', 'launch-failure: prepare;call',
                                    'prepare;prepare || close;call')]
    ctx.pmap(unit_stateful, st, chunksize=1)
    # real subprocess part
    ctx.pmap(unit_real, REAL_CASES, jobs=8)
    c = ctx.counters
    ctx.coverage.update({
        'states': int(c['choice_points']),
        'transitions': int(c['choice_points']),
        'traces_validated_against_impl': int(c['schedules']),
        'rule': 'one evaluation = one complete schedule of the real Environment methods on real threads under the controlled '
                'scheduler (or one real-subprocess fault case); distinct_nontrivial = distinct observation vectors '
                '(launch count, per-server ended flags, exceptions, per-thread results, deadlock)',
        'bound_completed': {name: b for name, b in plan},
        'schedules_by_preemptions': {k[len('schedules_dev'):]: int(v) for k, v in c.items() if k.startswith('schedules_dev')},
        'scenarios': len(plan),
        'stateful_unbounded_search': {k[len('stateful:'):]: v for k, v in ctx.notes.items() if k.startswith('stateful:')},
        'real_subprocess_cases': REAL_CASES,
    })
    ctx.counters['distinct_nontrivial'] = len(ctx.outcomes)
    ctx.sample({'scenario': 'prepare;call || call', 'first_schedule_points': [list(map(str, t)) for t in firsts['prepare;call || call'].trace[:6]]})
    ctx.assumptions += [
        'atomicity model: one source line of supp/remote.py is atomic (GIL); a scheduling point precedes every line',
        'Popen/Client/time/Lock/Thread are fakes: a launched server "ends" when it receives a close request or its connection is closed',
        'states/transitions = scheduling choice points met over all schedules (stateless search has no state table)',
        'close() concurrent with a call of another thread is outside the statement and only checked for deadlock',
        'unbounded stateful search: scheduling points only at lines whose statement touches shared state (self attributes written after __init__, objects reached through self, the patched globals, locals aliasing either - see visible_lines; other lines compute on private locals and commute); the state key is the per-thread stack of (function, line, simple locals) plus the shared client/world state; scenarios marked closed=false hit the execution cap and are NOT exhaustive',
        'real-subprocess cases assert "exits within 10 s" (server polls once per second)',
    ]
