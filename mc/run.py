"""Runner: ./check <ID> [--tier quick|thorough] | ./check <ID> --replay <path>"""
import os
import sys
import json
import time
import argparse
import importlib
import logging
import traceback

from . import common
from .common import Ctx, HarnessError


def confirm(mod, v):
    """A violation is printed only if replaying its witness reproduces the signature twice."""
    if not hasattr(mod, 'replay'):
        return True
    for _ in range(2):
        got = mod.replay(v['witness'])
        if v['sig'] not in [s for s, _w in got]:
            return False
    return True


def main(argv=None):
    ap = argparse.ArgumentParser()
    ap.add_argument('pid')
    ap.add_argument('--tier', default=os.environ.get('VERIF_TIER') or 'quick', choices=['quick', 'thorough'])
    ap.add_argument('--replay')
    ap.add_argument('--list-signatures', action='store_true', help='print every violated signature (triage aid)')
    args = ap.parse_args(argv)
    pid = args.pid.upper()
    logging.disable(logging.CRITICAL)
    import warnings
    warnings.simplefilter('ignore')
    sys.setrecursionlimit(1000)
    mod = importlib.import_module('mc.' + pid.lower())

    if args.replay:
        w = json.load(open(args.replay))
        got = mod.replay(w['witness'])
        known = common.load_known(pid)
        bad = 0
        for sig, what in got:
            if sig in known:
                print('KNOWN-FINDING: property=%s %s' % (pid, known[sig]['what']))
            else:
                bad += 1
                print('VIOLATION property=%s replay=%s' % (pid, args.replay))
                print('  signature: %s\n  %s' % (sig, what))
        if not got:
            print('replay: no violation reproduced for %s' % args.replay)
        return 1 if bad else 0

    seed = int(os.environ.get('VERIF_SEED', '0') or 0)
    ctx = Ctx(pid, args.tier, seed)
    try:
        mod.run(ctx)
    except HarnessError as e:
        print('HARNESS-ERROR property=%s: %s' % (pid, e))
        return 2
    except Exception:
        print('HARNESS-ERROR property=%s (exception in harness)' % pid)
        traceback.print_exc()
        return 2

    known = common.load_known(pid)
    by_sig = {}
    for v in ctx.violations:
        by_sig.setdefault(v['sig'], []).append(v)

    unlisted = 0
    lines = []
    for sig in sorted(by_sig):
        vs = by_sig[sig]
        if sig in known:
            lines.append('KNOWN-FINDING: property=%s %s [%s]' % (pid, known[sig]['what'], sig))
            ctx.count('known_finding_signatures')
            continue
        v = vs[0]
        try:
            ok = confirm(mod, v)
        except Exception:
            traceback.print_exc()
            ok = False
        if not ok:
            print('HARNESS-ERROR property=%s: violation %r did not reproduce on replay' % (pid, sig))
            print(json.dumps(v, default=repr)[:2000])
            common.write_evidence(ctx, len(by_sig))
            return 2
        path = common.write_replay(pid, v)
        unlisted += 1
        lines.append('VIOLATION property=%s replay=%s' % (pid, path))
        lines.append('  signature: %s' % sig)
        lines.append('  %s' % v['what'])

    if args.list_signatures:
        for sig in sorted(by_sig):
            print('SIG %s  x%d  %s' % (sig, len(by_sig[sig]), by_sig[sig][0]['what'][:300]))

    ev = common.write_evidence(ctx, unlisted)
    cov = ev['coverage']
    print('property=%s tier=%s seed=%d evaluations=%s distinct_nontrivial=%s distinct_outcomes=%s exhaustive=%s wall=%.1fs' % (
        pid, args.tier, seed, cov.get('evaluations'), cov.get('distinct_nontrivial'),
        cov.get('distinct_outcomes'), cov.get('exhaustive'), ev['wall_s']))
    for k in ('states', 'transitions', 'traces_validated_against_impl', 'programs', 'bound_completed'):
        if k in cov:
            print('  %s=%s' % (k, cov[k]))
    for ln in lines:
        print(ln)
    return 1 if unlisted else 0


if __name__ == '__main__':
    sys.exit(main())
