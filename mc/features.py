"""Feature templates: the long tail of Python binding constructs, one statement-sized snippet each.

A feature has a ``plain`` template (list of lines, relative indentation by leading spaces) and an
``instr`` template.  Markers:

  plain:  {R1:a}      read site R1 of variable a       {R1:a@s} read inside nested scope "s" of this feature
          {B1:a}      binding identifier B1 of a       {B1:a@s} binding inside nested scope "s"
                      optional construct kind: {B1:a/kwonly-param}
  instr:  {R1}        -> _u(<id of R1>, a, a__s)        {d1} -> <site id of B1>   {v1} -> variable of B1   {r1} -> <id of R1>

Instr lines starting with '?L ' are emitted in lenient mode only, '?S ' in strict mode only.
``binds`` lists the names the feature binds in the ENCLOSING scope (for lenient pre-binding).
Flags: c02 / c03 = inside the structured fragment of those properties.
"""
import re

FEATURES = {}


def feature(name, plain, instr, binds=(), c02=False, c03=False, needs=(), note=''):
    FEATURES[name] = dict(plain=plain, instr=instr, binds=binds, c02=c02, c03=c03, needs=tuple(needs), note=note)


_PM = re.compile(r'\{([RB])(\w+):(\w+)(?:@(\w+))?(?:/([\w-]+))?\}')
_IM = re.compile(r'\{([Rrdv])(\w+)\}')


def render(R, s, ind, scope):
    """Render feature statement s = ('feat', name, variant) with renderer R."""
    f = FEATURES[s[1]]
    var = s[2]
    other = 'b' if var == 'a' else 'a'

    def subst(t):
        return t.replace('$X', var).replace('$Y', other)
    labels = {}
    plain_lines = []
    # allocate ids in plain-template order (mode independent)
    base_line = len(R.lines) + 1
    # in instr modes the plain lines are not emitted, but positions must still be those of the plain text:
    # positions are only ever used from the 'plain' rendering, so in instr modes we just need ids.
    for li, raw in enumerate(f['plain']):
        line = subst(raw)
        out = ''
        pos = 0
        for m in _PM.finditer(line):
            out += line[pos:m.start()]
            kind, lab, v, sc, ck = m.groups()
            col = ind * 4 + len(out)
            sscope = scope if not sc else ('feat', base_line, sc)
            if kind == 'R':
                rid = R.read(v, base_line + li, col, sscope, 'feat:%s:%s' % (s[1], lab))
                labels['R' + lab] = (rid, v)
            else:
                did = R.define(v, base_line + li, col, sscope, ck or ('feat:%s' % s[1]))
                labels['B' + lab] = (did, v)
            out += v
            pos = m.end()
        out += line[pos:]
        plain_lines.append(out)
    if R.mode == 'plain':
        for ln in plain_lines:
            R.emit(ind, ln)
        return
    for raw in f['instr']:
        if raw.startswith('?L '):
            if R.mode != 'lenient':
                continue
            raw = raw[3:]
        elif raw.startswith('?S '):
            if R.mode != 'strict':
                continue
            raw = raw[3:]
        line = subst(raw)

        def rep(m):
            kind, lab = m.groups()
            if kind == 'R':
                rid, v = labels['R' + lab]
                return '_u(%d, %s, %s__s)' % (rid, v, v)
            if kind == 'r':
                return str(labels['R' + lab][0])     # the bare read id (site supplied by the template)
            did, v = labels['B' + lab]
            return str(did) if kind == 'd' else v
        R.emit(ind, _IM.sub(rep, line))




# =========================================================================== the features
# $X = the feature's variable (a or b), $Y = the other one.

# ---- assignment forms
feature('tuple-assign',
        ['{B1:$X/tuple-assign}, {B2:$Y/tuple-assign} = {R1:$Y}, 0'],
        ['$X, $Y = {R1}, 0', '$X__s, $Y__s = {d1}, {d2}'], binds='ab', c02=True, c03=True)
feature('starred-assign',
        ['{B1:$X/tuple-assign}, *{B2:$Y/starred-assign} = 0, {R1:$X}'],
        ['$X, *$Y = 0, {R1}', '$X__s, $Y__s = {d1}, {d2}'], binds='ab', c02=True, c03=True)
feature('nested-tuple-assign',
        ['({B1:$X/tuple-assign}, [{B2:$Y/tuple-assign}, q]) = 0, ({R1:$X}, 0)'],
        ['($X, [$Y, q]) = 0, ({R1}, 0)', '$X__s, $Y__s = {d1}, {d2}'], binds='ab', c02=True, c03=True)
feature('chained-assign',
        ['{B1:$X/chained-assign} = {B2:$Y/chained-assign} = {R1:$Y}'],
        ['$X = $Y = {R1}', '$X__s, $Y__s = {d1}, {d2}'], binds='ab', c02=True, c03=True)
feature('ann-assign',
        ['{B1:$X/ann-assign}: int = {R1:$Y}', '{R2:$X}'],
        ['$X: int = {R1}', '$X__s = {d1}', '{R2}'], binds='$X', c02=True, c03=True)
feature('ann-only',
        ['$X: int', '{R1:$X}'],
        ['$X: int', '{R1}'], binds='', c02=True, c03=False)
feature('walrus-stmt',
        ['({B1:$X/walrus} := {R1:$Y})', '{R2:$X}'],
        ['_id($X := {R1}, $X__s := {d1})', '{R2}'], binds='$X', c02=True, c03=True)
feature('walrus-if',
        ['if ({B1:$X/walrus} := _o()):', '    {R1:$X}', '{R2:$X}'],
        ['if _id($X := _o(), $X__s := {d1}):', '    {R1}', '{R2}'], binds='$X', c02=True, c03=True)
feature('walrus-while',
        ['while ({B1:$X/walrus} := _o()):', '    {R1:$X}', '{R2:$X}'],
        ['while _id($X := _w(-{d1}), $X__s := {d1}):', '    {R1}', '{R2}'], binds='$X', c02=True, c03=True)
feature('walrus-comp-if',
        ['[{R1:$X} for q in _it() if ({B1:$X/walrus-in-comp} := _o())]', '{R2:$X}'],
        ['[{R1} for q in _it() if _id($X := _o(), $X__s := {d1})]', '{R2}'], binds='$X', c02=False, c03=False)

# ---- a rebinding in the region of an earlier binding made "out of source order" (star import resolved late, walrus inside the value)
feature('star-import-then-rebind',
        ['from m1 import *', '{B1:x1/assign} = 0', 'if _o():', '    {R1:x1}', '{R2:x1}'],
        ['from m1 import *', 'x1 = 0; x1__s = {d1}', 'if _o():', '    {R1}', '{R2}'], c02=True, c03=True)
feature('rebind-then-star-import',
        ['{B1:x1/assign} = 0', 'from m1 import *', 'if _o():', '    {R1:fn1}', '{B2:fn1/assign} = 0', 'if _o():', '    {R2:fn1}'],
        ['x1 = 0; x1__s = {d1}', 'from m1 import *', 'fn1__s = -1', 'if _o():', '    {R1}', 'fn1 = 0; fn1__s = {d2}', 'if _o():', '    {R2}'], c02=False, c03=False)
# a star import of a module that says what it exports (__all__): listed underscore names are bound, unlisted names are not
feature('star-import-all-listed',
        ['from mall import *', '{R1:pub}', '{R2:_listed}', '{R3:fn_all}'],
        ['from mall import *', 'pub__s = _listed__s = fn_all__s = -1', '{R1}', '{R2}', '{R3}'], c02=False, c03=False)
feature('star-import-all-unlisted-keeps-earlier-binding',
        ['{B1:hidden/assign} = 0', 'import m1 as {B2:shadow/import-as}', 'from mall import *', '{R1:hidden}', '{R2:shadow}', 'if _o():', '    {R3:hidden}'],
        ['hidden = 0; hidden__s = {d1}', 'import m1 as shadow; shadow__s = {d2}', 'from mall import *', '{R1}', '{R2}', 'if _o():', '    {R3}'], c02=True, c03=True)
feature('walrus-inside-own-assign-value',
        ['{B1:$X/assign} = _id({B2:$X/walrus} := 0, 1)', 'if _o():', '    {R1:$X}', '{R2:$X}'],
        ['$X = _id($X := 0, $X__s := {d2}, 1); $X__s = {d1}', 'if _o():', '    {R1}', '{R2}'], binds='$X', c02=True, c03=True)
feature('walrus-last-in-own-assign-value',
        ['{B1:$X/assign} = _id({B2:$X/walrus} := 0)', 'if _o():', '    {R1:$X}', '{R2:$X}'],
        ['$X = _id($X := 0, $X__s := {d2}); $X__s = {d1}', 'if _o():', '    {R1}', '{R2}'], binds='$X', c02=True, c03=True)
feature('walrus-inside-own-with-item',
        ['with _cm({B2:$X/walrus} := 0) as {B1:$X/with-target}:', '    if _o():', '        {R1:$X}', '{R2:$X}'],
        ['with _cm($X := 0, _null($X__s := {d2})) as $X:', '    $X__s = {d1}', '    if _o():', '        {R1}', '{R2}'], binds='$X', c02=True, c03=True)
feature('ifexp-test-walrus-reads-itself',
        ['{B1:$X/assign} = 0', 'zz = ({R1:$X} if ({B2:$X/walrus} := _id(1, {R2:$X})) else 0)', '{R3:$X}'],
        ['$X = 0; $X__s = {d1}', 'zz = ({R1} if _id($X := _id(1, {R2}), $X__s := {d2}) else 0)', '{R3}'], binds='$X', c02=True, c03=True)
feature('comp-if-walrus-reads-itself',
        ['{B1:$X/assign} = 0', 'zz = [{R1:$X} for q in _it() if ({B2:$X/walrus-in-comp} := _id(1, {R2:$X}))]', '{R3:$X}'],
        ['$X = 0; $X__s = {d1}', 'zz = [{R1} for q in _it() if _id($X := _id(1, {R2}), $X__s := {d2})]', '{R3}'], binds='$X', c02=False, c03=False)

# ---- branching
feature('elif-chain',
        ['if _o():', '    {B1:$X/assign} = 0', 'elif _o():', '    {B2:$X/assign} = 1', 'elif _o():', '    {R1:$Y}', 'else:', '    {B3:$Y/assign} = 2', '{R2:$X}', '{R3:$Y}'],
        ['if _o():', '    $X = 0; $X__s = {d1}', 'elif _o():', '    $X = 1; $X__s = {d2}', 'elif _o():', '    {R1}', 'else:', '    $Y = 2; $Y__s = {d3}', '{R2}', '{R3}'],
        binds='ab', c02=True, c03=True)

# ---- loop / with targets
feature('for-tuple-target',
        ['for {B1:$X/for-target}, ({B2:$Y/for-target}, q) in _it((0, (0, 0))):', '    {R1:$X}', '    {R2:$Y}', '{R3:$Y}'],
        ['for $X, ($Y, q) in _it((0, (0, 0))):', '    $X__s = {d1}; $Y__s = {d2}', '    {R1}', '    {R2}', '{R3}'],
        binds='ab', c02=True, c03=True)
feature('for-starred-target',
        ['for {B1:$X/for-target}, *{B2:$Y/for-target} in _it((0, 0)):', '    {R1:$Y}', 'else:', '    {R2:$X}'],
        ['for $X, *$Y in _it((0, 0)):', '    $X__s = {d1}; $Y__s = {d2}', '    {R1}', 'else:', '    {R2}'],
        binds='ab', c02=True, c03=True)
# targets that are not names (subscript / attribute) and read a name while being assigned
feature('for-tuple-subscript-target',
        ['for {B1:$X/for-target}, _id([0], {R1:$Y})[0] in _it((0, 0)):', '    {R2:$X}', '{R3:$Y}'],
        ['for $X, _id([0], {R1})[0] in _it((0, 0)):', '    $X__s = {d1}', '    {R2}', '{R3}'], binds='$X', c02=True, c03=True)
feature('for-tuple-attr-target',
        ['for _id(_mk(), {R1:$Y}).v, {B1:$X/for-target} in _it((0, 0)):', '    {R2:$X}'],
        ['for _id(_mk(), {R1}).v, $X in _it((0, 0)):', '    $X__s = {d1}', '    {R2}'], binds='$X', c02=True, c03=True)
feature('for-subscript-target',
        ['for _id([0], {R1:$X})[0] in _it(0):', '    {R2:$X}'],
        ['for _id([0], {R1})[0] in _it(0):', '    {R2}'], c02=True, c03=True)
feature('for-nested-tuple-attr-target',
        ['for q, (_id(_mk(), {R1:$X}).v, *_id([0], {R2:$Y})[0:1]) in _it((0, (0, 0))):', '    pass'],
        ['for q, (_id(_mk(), {R1}).v, *_id([0], {R2})[0:1]) in _it((0, (0, 0))):', '    pass'], c02=True, c03=True)
feature('for-target-reads-earlier-element',
        ['for {B1:$X/for-target}, _id([0], {R1:$X})[0] in _it((0, 0)):', '    {R2:$X}'],
        ['for $X, _id([0], ($X__s := {d1}), {R1})[0] in _it((0, 0)):', '    {R2}'], binds='$X', c02=True, c03=True)
feature('comp-tuple-subscript-target',
        ['zz = [0 for q, _id([0], {R1:$X})[0] in _it((0, 0))]', '{R2:$X}'],
        ['zz = [0 for q, _id([0], {R1})[0] in _it((0, 0))]', '{R2}'], c02=True, c03=True)
feature('comp-target-reads-earlier-element',
        ['zz = [0 for {B1:$X@c/comp-target}, _id([0], {R1:$X@c})[0] in _it((0, 0))]'],
        ['zz = [0 for $X, _id([0], _u({r1}, $X, {d1}))[0] in _it((0, 0))]'], c02=True, c03=True)
feature('with-target-reads-earlier-element',
        ['with _cm((0, 0)) as ({B1:$X/with-target}, _id([0], {R1:$X})[0]):', '    {R2:$X}'],
        ['with _cm((0, 0)) as ($X, _id([0], ($X__s := {d1}), {R1})[0]):', '    {R2}'], binds='$X', c02=True, c03=True)
feature('for-subscript-target-reads-loop-carried',
        ['for _id([0], {R1:$X})[0] in _it(0):', '    {B1:$X/assign} = 1', '{R2:$X}'],
        ['for _id([0], {R1})[0] in _it(0):', '    $X = 1; $X__s = {d1}', '{R2}'], binds='$X', c02=True, c03=True)
feature('with-tuple-subscript-target',
        ['with _cm((0, 0)) as ({B1:$X/with-target}, _id([0], {R1:$Y})[0]):', '    {R2:$X}'],
        ['with _cm((0, 0)) as ($X, _id([0], {R1})[0]):', '    $X__s = {d1}', '    {R2}'], binds='$X', c02=True, c03=True)
feature('with-attr-target',
        ['with _cm() as _id(_mk(), {R1:$X}).v:', '    {R2:$X}'],
        ['with _cm() as _id(_mk(), {R1}).v:', '    {R2}'], c02=True, c03=True)
feature('assign-tuple-subscript-target',
        ['{B1:$X/assign}, _id([0], {R1:$Y})[0] = 0, 0', '{R2:$X}'],
        ['$X, _id([0], {R1})[0] = 0, 0; $X__s = {d1}', '{R2}'], binds='$X', c02=True, c03=True)
feature('assign-target-reads-earlier-element',
        ['{B1:$X/tuple-assign}, _id([0], {R1:$X})[0] = 0, 0', '{R2:$X}'],
        ['$X, _id([0], ($X__s := {d1}), {R1})[0] = 0, 0', '{R2}'], binds='$X', c02=True, c03=True)
feature('chained-assign-target-reads-first-target',
        ['{B1:$X/chained-assign} = _id([0], {R1:$X})[0] = 0', '{R2:$X}'],
        ['$X = _id([0], ($X__s := {d1}), {R1})[0] = 0', '{R2}'], binds='$X', c02=True, c03=True)
feature('subscript-target-reads-walrus-of-value',
        ['_id([0], {R1:$X})[0] = ({B1:$X/walrus} := 0)', '{R2:$X}'],
        ['_id([0], {R1})[0] = _id($X := 0, $X__s := {d1})', '{R2}'], binds='$X', c02=True, c03=True)
feature('annotation-reads-own-target',
        ['{B1:$X/ann-assign}: _id(int, {R1:$X}) = 0', '{R2:$X}'],
        ['$X: _id(int, ($X__s := {d1}), {R1}) = 0', '{R2}'], binds='$X', c02=True, c03=True)
feature('augassign-subscript-target',
        ['_id([0], {R1:$X})[0] += 1', '_id(_mk(), {R2:$Y}).v: int = 0'],
        ['_id([0], {R1})[0] += 1', '_id(_mk(), {R2}).v: int = 0'], c02=True, c03=True)
feature('with-tuple-target',
        ['with _cm((0, 0)) as ({B1:$X/with-target}, {B2:$Y/with-target}):', '    {R1:$X}', '{R2:$Y}'],
        ['with _cm((0, 0)) as ($X, $Y):', '    $X__s = {d1}; $Y__s = {d2}', '    {R1}', '{R2}'],
        binds='ab', c02=True, c03=True)
feature('with-two-items',
        ['with _cm() as {B1:$X/with-target}, _cm({R1:$X}) as {B2:$Y/with-target}:', '    {R2:$Y}', '{R3:$X}'],
        ['with _cm() as $X, _null($X__s := {d1}), _cm({R1}) as $Y:', '    $Y__s = {d2}', '    {R2}', '{R3}'],
        binds='ab', c02=True, c03=True)
feature('with-three-items',
        ['with _cm() as {B1:$X/with-target}, _cm({R1:$X}) as {B2:$Y/with-target}, _cm({R2:$Y}) as q:', '    {R3:$X}'],
        ['with _cm() as $X, _null($X__s := {d1}), _cm({R1}) as $Y, _null($Y__s := {d2}), _cm({R2}) as q:', '    {R3}'],
        binds='ab', c02=True, c03=True)
feature('with-no-target',
        ['with _cm({R1:$X}):', '    {B1:$X/assign} = 0', '{R2:$X}'],
        ['with _cm({R1}):', '    $X = 0; $X__s = {d1}', '{R2}'], binds='$X', c02=True, c03=True)

# ---- def: parameter kinds, defaults, decorators, annotations
feature('def-posonly',
        ['def g({B1:$X@g/posonly-param}, /):', '    {R1:$X@g}', 'g(0)'],
        ['def g($X, /):', '    $X__s = {d1}', '    {R1}', 'g(0)'], c02=True, c03=True)
feature('def-param-default',
        ['def g({B1:$X@g/param}={R1:$X}):', '    {R2:$X@g}', 'g()'],
        ['def g($X={R1}):', '    $X__s = {d1}', '    {R2}', 'g()'], c02=True, c03=True)
feature('def-vararg',
        ['def g(*{B1:$X@g/vararg}):', '    {R1:$X@g}', 'g()'],
        ['def g(*$X):', '    $X__s = {d1}', '    {R1}', 'g()'], c02=True, c03=True)
feature('def-kwonly',
        ['def g(*, {B1:$X@g/kwonly-param}):', '    {R1:$X@g}', 'g($X=0)'],
        ['def g(*, $X):', '    $X__s = {d1}', '    {R1}', 'g($X=0)'], c02=True, c03=True)
feature('def-kwonly-default',
        ['def g(*, k={R1:$X}):', '    return k', 'g()'],
        ['def g(*, k={R1}):', '    return k', 'g()'], c02=True, c03=True)
feature('def-kwarg',
        ['def g(**{B1:$X@g/kwarg}):', '    {R1:$X@g}', 'g()'],
        ['def g(**$X):', '    $X__s = {d1}', '    {R1}', 'g()'], c02=True, c03=True)
feature('def-all-params',
        ['def g(p, /, {B1:$X@g/param}, *r, {B2:$Y@g/kwonly-param}=0, **kw):', '    {R1:$X@g}', '    {R2:$Y@g}', '    return p, r, kw', 'g(0, 0)'],
        ['def g(p, /, $X, *r, $Y=0, **kw):', '    $X__s = {d1}; $Y__s = {d2}', '    {R1}', '    {R2}', '    return p, r, kw', 'g(0, 0)'],
        c02=True, c03=True)
feature('def-decorator',
        ['@_dec({R1:$X})', 'def g():', '    pass'],
        ['@_dec({R1})', 'def g():', '    pass'], c02=True, c03=True)
feature('def-annotations',
        ['def g(p: {R1:$X} = 0) -> {R2:$Y}:', '    return p'],
        ['def g(p: {R1} = 0) -> {R2}:', '    return p'], c02=True, c03=True)
feature('def-posonly-annotation',
        ['def g(p: {R1:$X}, /):', '    return p'],
        ['def g(p: {R1}, /):', '    return p'], c02=True, c03=True)
feature('def-star-annotations',
        ['def g(*p: {R1:$X}, q: {R2:$Y} = 0, **r: {R3:$X}):', '    return p, q, r'],
        ['def g(*p: {R1}, q: {R2} = 0, **r: {R3}):', '    return p, q, r'], c02=True, c03=True)
feature('def-body-reads-outer',
        ['def g():', '    return {R1:$X@g}', 'if _o():', '    g()'],
        ['def g():', '    return {R1}', 'if _o():', '    g()'], c02=True, c03=False)
feature('def-recursion',
        ['def g(n=0):', '    {R1:g@g}', '    return n', 'g()'],
        ['def g(n=0):', '    {R1}', '    return n', 'g__s = 0', 'g()'], c02=True, c03=False,
        note='g__s is 0 on purpose: the def site of g is not tracked for this feature')
feature('async-forms',
        ['async def g():', '    async for {B1:$X@g/for-target} in _ait():', '        {R1:$X@g}', '    async with _acm() as {B2:$Y@g/with-target}:', '        {R2:$Y@g}', '    {R3:$X@g}', '_arun(g())'],
        ['async def g():', '?L     $X = _UNB; $X__s = 0; $Y = _UNB; $Y__s = 0', '    async for $X in _ait():', '        $X__s = {d1}', '        {R1}', '    async with _acm() as $Y:', '        $Y__s = {d2}', '        {R2}', '    {R3}', '_arun(g())'],
        c02=True, c03=True)

# ---- lambda
feature('lambda-param',
        ['(lambda {B1:$X@l/param}: {R1:$X@l})(0)'],
        ['(lambda $X, $X__s={d1}: {R1})(0)'], c02=True, c03=True)
feature('lambda-posonly',
        ['(lambda {B1:$X@l/posonly-param}, /: {R1:$X@l})(0)'],
        ['(lambda $X, /, $X__s={d1}: {R1})(0)'], c02=True, c03=True)
feature('lambda-vararg-kwarg',
        ['(lambda *{B1:$X@l/vararg}, **{B2:$Y@l/kwarg}: ({R1:$X@l}, {R2:$Y@l}))()'],
        ['(lambda *$X, $X__s={d1}, $Y__s={d2}, **$Y: ({R1}, {R2}))()'], c02=True, c03=True)
feature('lambda-kwonly',
        ['(lambda *, {B1:$X@l/kwonly-param}: {R1:$X@l})($X=0)'],
        ['(lambda *, $X, $X__s={d1}: {R1})($X=0)'], c02=True, c03=True)
feature('lambda-default',
        ['(lambda p={R1:$X}: p)()'],
        ['(lambda p={R1}: p)()'], c02=True, c03=True)
feature('lambda-kwonly-default',
        ['(lambda *, k={R1:$X}: k)()'],
        ['(lambda *, k={R1}: k)()'], c02=True, c03=True)
feature('lambda-reads-outer',
        ['(lambda: {R1:$X@l})()'],
        ['(lambda: {R1})()'], c02=True, c03=False)

# ---- class
feature('class-bases',
        ['class K(_id(object, {R1:$X})):', '    pass'],
        ['class K(_id(object, {R1})):', '    pass'], c02=True, c03=True)
feature('class-keywords',
        ['class K(metaclass=_id(type, {R1:$X})):', '    pass'],
        ['class K(metaclass=_id(type, {R1})):', '    pass'], c02=True, c03=True)
feature('class-decorator',
        ['@_dec({R1:$X})', 'class K:', '    pass'],
        ['@_dec({R1})', 'class K:', '    pass'], c02=True, c03=True)
# a decorated class / function as the FIRST statement of a block whose header binds the name the decorator reads
feature('param-read-by-decorator-of-leading-class',
        ['def g({B1:$X@g/param}):', '    @_dec({R1:$X@g})', '    class K:', '        pass', '    return K', 'g(0)'],
        ['def g($X):', '    $X__s = {d1}', '    @_dec({R1})', '    class K:', '        pass', '    return K', 'g(0)'], c02=True, c03=True)
feature('param-read-by-decorator-of-leading-def',
        ['def g({B1:$X@g/param}):', '    @_dec({R1:$X@g})', '    def h():', '        pass', '    return h', 'g(0)'],
        ['def g($X):', '    $X__s = {d1}', '    @_dec({R1})', '    def h():', '        pass', '    return h', 'g(0)'], c02=True, c03=True)
feature('except-name-read-by-decorator-of-leading-class',
        ['try:', '    _r()', 'except E_ as {B1:$X/except-name}:', '    @_dec({R1:$X})', '    class K:', '        pass'],
        ['try:', '    _r()', 'except E_ as $X:', '    $X__s = {d1}', '    @_dec({R1})', '    class K:', '        pass'], binds='$X', c02=False, c03=False)
feature('except-name-read-by-decorator-of-leading-def',
        ['try:', '    _r()', 'except E_ as {B1:$X/except-name}:', '    @_dec({R1:$X})', '    async def h():', '        pass'],
        ['try:', '    _r()', 'except E_ as $X:', '    $X__s = {d1}', '    @_dec({R1})', '    async def h():', '        pass'], binds='$X', c02=False, c03=False)
feature('class-body',
        ['class K:', '    {R1:$X@K}', '    {B1:$X@K/class-assign} = 0', '    {R2:$X@K}', '    {R3:$Y@K}', '{R4:$X}'],
        ['class K:', '    {R1}', '    $X = 0; $X__s = {d1}', '    {R2}', '    {R3}', '{R4}'], c02=True, c03=False)
feature('class-method-skips-body',
        ['class K:', '    {B1:$X@K/class-assign} = 0', '    def m(self):', '        return {R1:$X@m}', 'K().m()'],
        ['class K:', '    $X = 0; $X__s = {d1}', '    def m(self):', '        return {R1}', 'K().m()'], c02=True, c03=False)

# ---- comprehensions
feature('listcomp',
        ['[{R1:$X@c} for {B1:$X@c/comp-target} in _it()]'],
        ['[{R1} for $X in _it() for $X__s in ({d1},)]'], c02=True, c03=True)
feature('listcomp-then-read',
        ['[{R1:$X@c} for {B1:$X@c/comp-target} in _it()]', '{R2:$X}'],
        ['[{R1} for $X in _it() for $X__s in ({d1},)]', '{R2}'], c02=True, c03=False)
feature('setcomp-dictcomp-genexp',
        ['{{R1:$X@c} for {B1:$X@c/comp-target} in _it()}', '{{R2:$X@d}: {R3:$Y} for {B2:$X@d/comp-target} in _it()}', 'list({R4:$X@e} for {B3:$X@e/comp-target} in _it())'],
        ['{{R1} for $X in _it() for $X__s in ({d1},)}', '{{R2}: {R3} for $X in _it() for $X__s in ({d2},)}', 'list({R4} for $X in _it() for $X__s in ({d3},))'],
        c02=True, c03=False)
feature('comp-two-generators',
        ['[{R1:$X@c} for {B1:$X@c/comp-target} in _it() for {B2:$Y@c/comp-target} in _it({R2:$X@c})]'],
        ['[{R1} for $X in _it() for $X__s in ({d1},) for $Y in _it({R2}) for $Y__s in ({d2},)]'], c02=True, c03=True)
feature('comp-condition',
        ['[0 for {B1:$X@c/comp-target} in _it() if {R1:$X@c} if {R2:$Y}]'],
        ['[0 for $X in _it() for $X__s in ({d1},) if {R1} if {R2}]'], c02=True, c03=False)
feature('comp-first-iterable',
        ['[0 for q in _it({R1:$X})]'],
        ['[0 for q in _it({R1})]'], c02=True, c03=True)
feature('comp-tuple-target',
        ['[{R1:$Y@c} for {B1:$X@c/comp-target}, {B2:$Y@c/comp-target} in _it((0, 0))]'],
        ['[{R1} for $X, $Y in _it((0, 0)) for $X__s, $Y__s in (({d1}, {d2}),)]'], c02=True, c03=True)
feature('comp-var-named-like-outer-read-in-function',
        ['{B1:$X/assign} = 0', 'def g():', '    {R1:$X@g}', '    zz = [{R2:$X@c} for {B2:$X@c/comp-target} in _it()]', '    {R3:$X@g}', 'g()'],
        ['$X = 0; $X__s = {d1}', 'def g():', '    {R1}', '    zz = [_u({r2}, $X, {d2}) for $X in _it()]', '    {R3}', 'g()'], binds='$X', c02=False, c03=False)
feature('comp-var-named-like-class-attr',
        ['class K:', '    {B1:$X@K/assign} = 0', '    zz = [0 for {B2:$X@c/comp-target} in _it()]', '    {R1:$X@K}'],
        ['class K:', '    $X = 0; $X__s = {d1}', '    zz = [0 for $X in _it()]', '    {R1}'], c02=False, c03=False)
feature('except-type-reads-body-binding',
        ['try:', '    {B1:$X/assign} = E_', '    _r()', 'except {R1:$X}:', '    pass'],
        ['try:', '    $X = E_; $X__s = {d1}', '    _r()', 'except {R1}:', '    pass'], binds='$X', c02=True, c03=False)
feature('lambda-in-comp-reads-comp-var',
        ['{B1:$X/assign} = 0', 'zz = [(lambda: {R1:$X@l})() for {B2:$X@c/comp-target} in _it()]', '{R2:$X}'],
        ['$X = 0; $X__s = {d1}', 'zz = [(lambda: _u({r1}, $X, {d2}))() for $X in _it()]', '{R2}'], binds='$X', c02=False, c03=False)
feature('lambda-in-comp-behind-nested-comp',
        ['{B1:$X/assign} = 0', 'zz = [([0 for q in _it()], (lambda: {R1:$X@l})()) for {B2:$X@c/comp-target} in _it()]', '{R2:$X}'],
        ['$X = 0; $X__s = {d1}', 'zz = [([0 for q in _it()], (lambda: _u({r1}, $X, {d2}))()) for $X in _it()]', '{R2}'], binds='$X', c02=False, c03=False)
feature('dictcomp-key-walrus-read-in-value',
        ['zz = {({B1:$X/walrus-in-comp} := 0): {R1:$X} for q in _it()}', '{R2:$X}'],
        ['zz = {_id($X := 0, $X__s := {d1}): {R1} for q in _it()}', '{R2}'], binds='$X', c02=False, c03=False)
feature('global-statement-at-module-level',
        ['global $X', 'if _o():', '    {B1:$X/assign} = 0', '{R1:$X}', '{B2:$X/assign} = 1', '{R2:$X}'],
        ['?S global $X', 'if _o():', '    $X = 0; $X__s = {d1}', '{R1}', '$X = 1; $X__s = {d2}', '{R2}'], binds='$X', c02=True, c03=True)
feature('comp-nested',
        ['[[{R1:$X@c2} for q in _it()] for {B1:$X@c/comp-target} in _it()]'],
        ['[[{R1} for q in _it()] for $X in _it() for $X__s in ({d1},)]'], c02=True, c03=False)

# ---- global / nonlocal
feature('global-bound-in-function',
        ['def g():', '    global $X', '    {B1:$X/global-assign} = 0', 'g()', '{R1:$X}'],
        ['def g():', '    global $X, $X__s', '    $X = 0; $X__s = {d1}', 'g()', '{R1}'], binds='$X', c02=True, c03=False)
feature('global-read-in-function',
        ['def g():', '    global $X', '    {R1:$X@g}', '    {B1:$X/global-assign} = 0', 'g()', '{R2:$X}'],
        ['def g():', '    global $X, $X__s', '    {R1}', '    $X = 0; $X__s = {d1}', 'g()', '{R2}'], binds='$X', c02=False, c03=False)
feature('global-skips-enclosing',
        ['def g():', '    {B1:$X@g/assign} = 0', '    def h():', '        global $X', '        return {R1:$X@Gh}', '    return h()', 'if _o():', '    g()'],
        ['def g():', '    $X = 0; $X__s = {d1}', '    def h():', '        global $X, $X__s', '        return {R1}', '    return h()', 'if _o():', '    g()'],
        c02=True, c03=True, note='scope label G*: the name is declared global there, it is a module-level read')
feature('nonlocal',
        ['def g():', '    {B1:$X@g/assign} = 0', '    def h():', '        nonlocal $X', '        {B2:$X@g/nonlocal-assign} = 1', '    if _o():', '        h()', '    {R1:$X@g}', 'g()'],
        ['def g():', '    $X = 0; $X__s = {d1}', '    def h():', '        nonlocal $X, $X__s', '        $X = 1; $X__s = {d2}', '    if _o():', '        h()', '    {R1}', 'g()'],
        c02=True, c03=False)

# ---- imports
feature('import-module',
        ['import {B1:m1/import}', '{R1:m1}'],
        ['import m1; m1__s = {d1}', '{R1}'], binds=['m1'], c02=True, c03=True)
feature('import-as',
        ['import m1 as {B1:$X/import-as}', '{R1:$X}'],
        ['import m1 as $X; $X__s = {d1}', '{R1}'], binds='$X', c02=True, c03=True)
feature('import-dotted',
        ['import {B1:pk/import}.sub', '{R1:pk}'],
        ['import pk.sub; pk__s = {d1}', '{R1}'], binds=['pk'], c02=True, c03=True)
feature('from-import',
        ['from m1 import {B1:x1/from-import}, y1 as {B2:$X/from-import}', '{R1:x1}', '{R2:$X}'],
        ['from m1 import x1, y1 as $X; x1__s = {d1}; $X__s = {d2}', '{R1}', '{R2}'], binds=['x1', '$X'], c02=True, c03=True)
feature('from-import-parenthesised',
        ['from m1 import (x1 as {B1:$X/from-import},', '                y1 as {B2:$Y/from-import})', '{R1:$X}', '{R2:$Y}'],
        ['from m1 import (x1 as $X,', '                y1 as $Y)', '$X__s = {d1}; $Y__s = {d2}', '{R1}', '{R2}'], binds='ab', c02=True, c03=True)
feature('star-import-project',
        ['from m1 import *', '{R1:x1}', '{R2:fn1}', '{R3:K1}'],
        ['from m1 import *', 'x1__s = fn1__s = K1__s = -1', '{R1}', '{R2}', '{R3}'], c02=False, c03=False)
feature('star-import-conditional-names',
        ['from m2 import *', '{R1:z2}', '{R2:x2}'],
        ['from m2 import *', 'z2__s = x2__s = -1', '{R1}', '{R2}'], c02=False, c03=False)
feature('star-import-stdlib',
        ['from string import *', '{R1:digits}', '{R2:ascii_letters}'],
        ['from string import *', 'digits__s = ascii_letters__s = -1', '{R1}', '{R2}'], c02=False, c03=False)
feature('star-import-package',
        ['from pk import *', '{R1:s1}', '{R2:p0}'],
        ['from pk import *', 's1__s = p0__s = -1', '{R1}', '{R2}'], c02=False, c03=False)
feature('import-in-function',
        ['def g():', '    import m1 as {B1:$X@g/import-as}', '    {R1:$X@g}', 'g()'],
        ['def g():', '    import m1 as $X; $X__s = {d1}', '    {R1}', 'g()'], c02=True, c03=True)
feature('try-import',
        ['try:', '    import m1 as {B1:$X/import-as}', 'except ImportError:', '    {B2:$X/assign} = None', '{R1:$X}'],
        ['try:', '    import m1 as $X; $X__s = {d1}', 'except ImportError:', '    $X = None; $X__s = {d2}', '{R1}'], binds='$X', c02=True, c03=False)

feature('star-import-chain',
        ['from mstar2 import *', '{R1:x1}', '{R2:fn1}', '{R3:own2}', '{R4:zz2}'],
        ['from mstar2 import *', 'x1__s = fn1__s = own2__s = zz2__s = -1', '{R1}', '{R2}', '{R3}', '{R4}'], c02=False, c03=False)
feature('star-import-chain3',
        ['from mre import *', '{R1:x1}', '{R2:KK}', '{R3:own2}', '{R4:K1}'],
        ['from mre import *', 'x1__s = KK__s = own2__s = K1__s = -1', '{R1}', '{R2}', '{R3}', '{R4}'], c02=False, c03=False)
feature('from-import-reexport',
        ['from mre import x1 as {B1:$X/from-import}, KK', '{R1:$X}', '{R2:KK}'],
        ['from mre import x1 as $X, KK; $X__s = {d1}; KK__s = -1', '{R1}', '{R2}'], binds='$X', c02=True, c03=False)

# ---- a comprehension (which opens a region of its own and joins back) with a walrus, in every expression position
_CW = '[($X := q) for q in _it()]'
_CWI = '[_id($X := q, $X__s := {d1}) for q in _it()]'


def _comp_positions():
    pos = {
        'expr-stmt': (['@C', '{R1:$X}'], ['@I', '{R1}']),
        'assign-value': (['zz = @C', '{R1:$X}'], ['zz = @I', '{R1}']),
        'if-test': (['if @C:', '    {R1:$X}', 'else:', '    {R2:$X}', '{R3:$X}'], ['if @I:', '    {R1}', 'else:', '    {R2}', '{R3}']),
        'elif-test': (['if _o():', '    pass', 'elif @C:', '    {R1:$X}', '{R2:$X}'], ['if _o():', '    pass', 'elif @I:', '    {R1}', '{R2}']),
        'while-test': (['while _o() and @C:', '    {R1:$X}', '{R2:$X}'], ['while _w(-{d1}) and @I:', '    {R1}', '{R2}']),
        'for-iter': (['for q2 in @C:', '    {R1:$X}', '{R2:$X}'], ['for q2 in @I:', '    {R1}', '{R2}']),
        'with-item': (['with _cm(@C) as q2:', '    {R1:$X}', '{R2:$X}'], ['with _cm(@I) as q2:', '    {R1}', '{R2}']),
        'call-arg': (['_id(0, @C)', '{R1:$X}'], ['_id(0, @I)', '{R1}']),
        'return-value': (['def g():', '    return @C', 'g()'], ['def g():', '    return @I', 'g()']),
        'def-default': (['def g(p=@C):', '    return p', '{R1:$X}'], ['def g(p=@I):', '    return p', '{R1}']),
        'decorator': (['@_dec(@C)', 'def g():', '    pass', '{R1:$X}'], ['@_dec(@I)', 'def g():', '    pass', '{R1}']),
        'class-base': (['class K(_id(object, @C)):', '    pass', '{R1:$X}'], ['class K(_id(object, @I)):', '    pass', '{R1}']),
        'ternary': (['zz = 1 if @C else 2', '{R1:$X}'], ['zz = 1 if @I else 2', '{R1}']),
        'boolop': (['zz = _o() or @C', '{R1:$X}'], ['zz = _o() or @I', '{R1}']),
        'subscript': (['zz = [0, 1, 2][len(@C)]', '{R1:$X}'], ['zz = [0, 1, 2][len(@I)]', '{R1}']),
        'lambda-default': (['zz = lambda p=@C: p', '{R1:$X}'], ['zz = lambda p=@I: p', '{R1}']),
        'assert': (['assert @C or True', '{R1:$X}'], ['assert @I or True', '{R1}']),
        'try-body-then-handler': (['try:', '    zz = @C', '    _r()', 'except E_:', '    {R1:$X}', '{R2:$X}'], ['try:', '    zz = @I', '    _r()', 'except E_:', '    {R1}', '{R2}']),
    }
    for name, (plain, instr) in pos.items():
        pl = [l.replace('@C', _CW.replace('($X :=', '({B1:$X/walrus-in-comp} :=')) for l in plain]
        il = [l.replace('@I', _CWI) for l in instr]
        feature('comp-in-' + name, pl, il, binds='$X' if name != 'return-value' else '', c02=(name not in ('return-value',)), c03=False)
        # and the same position with a comprehension that binds nothing, followed by an ordinary binding: the region after the
        # comprehension must still be connected to what follows
        pl2 = [l.replace('@C', '[q for q in _it()]') for l in plain]
        il2 = [l.replace('@I', '[q for q in _it()]').replace('-{d1}', '-{d9}') for l in instr]
        if name not in ('return-value', 'while-test'):
            feature('plain-comp-in-' + name, ['{B9:$X/assign} = 0'] + pl2, ['$X = 0; $X__s = {d9}'] + il2, binds='$X', c02=True, c03=(name in ('expr-stmt', 'assign-value', 'call-arg', 'if-test', 'for-iter')))


_comp_positions()

# ---- value expressions whose last AST node is not the last one in the text (binding location = end of the value)
for _n, _pl, _il in [
        ('call-kw-then-star', '{B1:$X/assign} = _id(0, k=1, *[{R1:$X}])', '$X = _id(0, k=1, *[{R1}])'),
        ('call-star-then-kw', '{B1:$X/assign} = _id(0, *[0], k={R1:$X})', '$X = _id(0, *[0], k={R1})'),
        ('call-pos-then-kw', '{B1:$X/assign} = _id({R1:$Y}, k={R2:$X})', '$X = _id({R1}, k={R2})'),
        ('call-kwargs-last', '{B1:$X/assign} = _id(0, k=1, **{{"z": {R1:$X}}})', '$X = _id(0, k=1, **{{"z": {R1}}})'),
        ('ternary', '{B1:$X/assign} = {R1:$Y} if _o() else {R2:$X}', '$X = {R1} if _o() else {R2}'),
        ('ternary-test-last-in-ast', '{B1:$X/assign} = ({R1:$X} if\n    _o() else 0)', '$X = ({R1} if\n    _o() else 0)'),
        ('dict-display', '{B1:$X/assign} = {{0: {R1:$Y}, 1: {R2:$X}}}', '$X = {{0: {R1}, 1: {R2}}}'),
        ('comp-elt', '{B1:$X/assign} = [{R1:$X} for q in _it()]', '$X = [{R1} for q in _it()]'),
        ('comp-cond', '{B1:$X/assign} = [q for q in _it() if {R1:$X}]', '$X = [q for q in _it() if {R1}]'),
        ('lambda-default', '{B1:$X/assign} = lambda p={R1:$X}: p', '$X = lambda p={R1}: p'),
        ('fstring', '{B1:$X/assign} = f"{{{R1:$X}}}"', '$X = f"{{{R1}}}"'),
        ('subscript-slice', '{B1:$X/assign} = [0, 1][0:len([{R1:$X}])]', '$X = [0, 1][0:len([{R1}])]'),
        ('compare-chain', '{B1:$X/assign} = 0 < 1 < _id(2, {R1:$X})', '$X = 0 < 1 < _id(2, {R1})'),
        ('multiline-call', '{B1:$X/assign} = _id(0,\n    {R1:$X})', '$X = _id(0,\n    {R1})'),
        ('multiline-first-longer', '{B1:$X/assign} = _id(_id(_id(0)),\n  {R1:$X})', '$X = _id(_id(_id(0)),\n  {R1})'),
        ('walrus-self', '({B1:$X/walrus} := _id(0, {R1:$X}))', '_id($X := _id(0, {R1}), $X__s := {d1})'),
        ('ann-assign-self', '{B1:$X/ann-assign}: int = _id(0, k={R1:$X})', '$X: int = _id(0, k={R1})'),
        ('aug-like', '{B1:$X/assign} = {R1:$X} + _id(1, k=2)', '$X = {R1} + _id(1, k=2)')]:
    _plain = _pl.replace('{{', '\x01').replace('}}', '\x02').split('\n')
    _plain = [l.replace('\x01', '{').replace('\x02', '}') for l in _plain]
    _instr = [l.replace('{{', '{').replace('}}', '}') for l in _il.split('\n')]
    if _n != 'walrus-self':
        _instr.append('$X__s = {d1}')
    # C02/C03 exclude comprehension inner expressions that read a name the enclosing statement rebinds
    _dom = _n not in ('comp-elt', 'comp-cond')
    feature('self-rhs-' + _n, _plain + ['{R9:$X}'], _instr + ['{R9}'], binds='$X', c02=_dom, c03=_dom)

# ---- evaluation order differs from text order / dynamic lookup at module and class level
feature('builtin-read-before-module-rebinding',
        ['{R1:len}', '{B1:len/assign} = 0', '{R2:len}'],
        ['len__s = -1', '{R1}', 'len = 0; len__s = {d1}', '{R2}'], binds='', c02=False, c03=False, note='toplevel only: in a function the read would be an UnboundLocalError')
feature('builtin-read-before-class-rebinding',
        ['class K:', '    {R1:len@K}', '    {B1:len@K/class-assign} = 0', '    {R2:len@K}'],
        ['len__s = -1', 'class K:', '    {R1}', '    len = 0; len__s = {d1}', '    {R2}'], c02=False, c03=False)
feature('while-test-reads-body-binding',
        ['while _o() or {R1:$X}:', '    {B1:$X/assign} = 0', '{R2:$X}'],
        ['while _w(-{d1}) or {R1}:', '    $X = 0; $X__s = {d1}', '{R2}'], binds='$X', c02=True, c03=False)
feature('while-test-walrus-body-rebinds',
        ['while ({B1:$X/walrus} := _o()):', '    {B2:$X/assign} = 0', 'else:', '    {R2:$X}', '{R1:$X}'],
        ['while _id($X := _w(-{d1}), $X__s := {d1}):', '    $X = 0; $X__s = {d2}', 'else:', '    {R2}', '{R1}'], binds='$X', c02=True, c03=True)
feature('while-test-walrus-body-rebinds-other',
        ['while ({B1:$X/walrus} := _o()):', '    {B2:$Y/assign} = 0', '    {B3:$X/assign} = {R3:$X}', 'else:', '    {R2:$Y}', '{R1:$X}'],
        ['while _id($X := _w(-{d1}), $X__s := {d1}):', '    $Y = 0; $Y__s = {d2}', '    $X = {R3}; $X__s = {d3}', 'else:', '    {R2}', '{R1}'], binds='ab', c02=True, c03=True)
feature('for-else-after-body-rebinds',
        ['for {B1:$X/for-target} in _it():', '    {B2:$X/assign} = 0', 'else:', '    {R2:$X}', '{R1:$X}'],
        ['for $X in _it():', '    $X__s = {d1}', '    $X = 0; $X__s = {d2}', 'else:', '    {R2}', '{R1}'], binds='$X', c02=True, c03=True)
feature('while-test-only-reader',
        ['{B2:$X/assign} = 1', 'while {R1:$X} and _o():', '    {B1:$X/assign} = 0'],
        ['$X = 1; $X__s = {d2}', 'while {R1} and _w(-{d1}):', '    $X = 0; $X__s = {d1}'], binds='$X', c02=True, c03=False)
feature('ternary-body-before-walrus',
        ['zz = {R1:$X} if ({B1:$X/walrus} := _o()) else 0', '{R2:$X}'],
        ['zz = {R1} if _id($X := _o(), $X__s := {d1}) else 0', '{R2}'], binds='$X', c02=True, c03=False)
feature('walrus-under-and',
        ['_o() and ({B1:$X/walrus} := 0)', '{R1:$X}'],
        ['_o() and _id($X := 0, $X__s := {d1})', '{R1}'], binds='$X', c02=True, c03=True)
feature('walrus-in-ternary-branch',
        ['zz = ({B1:$X/walrus} := 0) if _o() else 1', '{R1:$X}'],
        ['zz = _id($X := 0, $X__s := {d1}) if _o() else 1', '{R1}'], binds='$X', c02=True, c03=True)
FEATURES['builtin-read-before-module-rebinding']['toplevel'] = True
# supp does not split the flow at short-circuit operators / conditional expressions: every violation in a program that binds
# through := in such a branch is keyed by this one cause (known finding F-condwalrus)
FEATURES['walrus-under-and']['coarse'] = 'conditional-walrus'
FEATURES['walrus-in-ternary-branch']['coarse'] = 'conditional-walrus'

for _n in ('star-import-project', 'star-import-conditional-names', 'star-import-stdlib', 'star-import-package', 'star-import-chain', 'star-import-chain3',
           'star-import-then-rebind', 'rebind-then-star-import', 'star-import-all-listed', 'star-import-all-unlisted-keeps-earlier-binding', 'global-statement-at-module-level'):
    FEATURES[_n]['toplevel'] = True

FEATURES['annotation-reads-own-target']['toplevel'] = True      # the annotation of a local variable of a function is not evaluated
FEATURES['global-statement-at-module-level']['alone'] = True     # `global x` must precede every use of x


def binds(st):
    """names the feature statement binds in its enclosing scope"""
    b = FEATURES[st[1]]['binds']
    var = st[2]
    other = 'b' if var == 'a' else 'a'
    if isinstance(b, str):
        b = ['a', 'b'] if b == 'ab' else ([b] if b else [])
    return {x.replace('$X', var).replace('$Y', other) for x in b}
