"""E3 - program space Pi(k, d) and its renderings; ground truth by E1 over CPython executions.

IR (tuples, hashable):
    ('bind', v) ('use', v) ('mov', v, w)
    ('if', body, orelse) ('while', body, orelse) ('for', v, body, orelse) ('with', v, body)
    ('try', rz, body, hname, hbody, orelse, final)   rz in None|'first'|'last'|'both'; hname in None|var
    ('def', body) ('callf',) ('ret',) ('brk',) ('cont',) ('mayraise',)
    ('feat', name, variant)                            one template from mc/features.py

Renderings of one tree share site ids (allocated in the same traversal order):
    plain    text given to supp; records (line, col) of every read and binding identifier
    strict   executed by CPython: shadow variable x__s next to every binding, reads are _u(r, x, x__s)
    lenient  as strict + every scope pre-binds its variables to _UNB with shadow site 0
"""
import builtins
import collections
import functools
import sys

from . import e1

V = ('a', 'b')


# --------------------------------------------------------------------------- enumeration

def leaves(inloop, infunc, ctl):
    out = []
    for v in V:
        out.append(('bind', v))
        out.append(('use', v))
    out += [('mov', 'a', 'b'), ('mov', 'b', 'a'), ('mov', 'a', 'a'), ('mov', 'b', 'b')]
    if not infunc:
        out.append(('callf',))
    if ctl:
        out.append(('mayraise',))
        if inloop:
            out += [('brk',), ('cont',)]
    if infunc:
        out.append(('ret',))
    return tuple(out)


@functools.lru_cache(None)
def blocks(n, d, inloop, infunc, ctl):
    """all statement tuples with exactly n nodes"""
    if n == 0:
        return ((),)
    out = []
    for first in range(1, n + 1):
        for s in stmts(first, d, inloop, infunc, ctl):
            for rest in blocks(n - first, d, inloop, infunc, ctl):
                out.append((s,) + rest)
    return tuple(out)


@functools.lru_cache(None)
def stmts(n, d, inloop, infunc, ctl):
    if n == 1:
        return leaves(inloop, infunc, ctl)
    if d == 0:
        return ()
    out = []
    m = n - 1
    for b in range(1, m + 1):
        for body in blocks(b, d - 1, inloop, infunc, ctl):
            for oe in blocks(m - b, d - 1, inloop, infunc, ctl):
                out.append(('if', body, oe))
        for body in blocks(b, d - 1, True, infunc, ctl):
            for oe in blocks(m - b, d - 1, inloop, infunc, ctl):
                out.append(('while', body, oe))
                out.append(('for', 'a', body, oe))
    for body in blocks(m, d - 1, inloop, infunc, ctl):
        out.append(('with', 'a', body))
    if not infunc:
        for body in blocks(m, d - 1, False, True, ctl):
            out.append(('def', body))
    for b in range(1, m + 1):
        for h in range(0, m - b + 1):
            for e in range(0, m - b - h + 1):
                f = m - b - h - e
                if h == 0 and f == 0:
                    continue        # try needs a handler or a finally
                if h == 0 and e:
                    continue        # else needs a handler
                for body in blocks(b, d - 1, inloop, infunc, ctl):
                    for hb in (blocks(h, d - 1, inloop, infunc, ctl) if h else ((),)):
                        for eb in blocks(e, d - 1, inloop, infunc, ctl):
                            for fb in blocks(f, d - 1, inloop, infunc, ctl):
                                if h:
                                    for rz in ('first', 'last', 'both'):
                                        for hn in (None, 'b'):
                                            out.append(('try', rz, body, hn, hb, eb, fb))
                                else:
                                    out.append(('try', 'nohandler', body, None, (), (), fb))
    return tuple(out)


def swap(node):
    if isinstance(node, tuple):
        return tuple(swap(x) for x in node)
    if node == 'a':
        return 'b'
    if node == 'b':
        return 'a'
    return node


def has_read(prog):
    r = repr(prog)
    return "'use'" in r or "'mov'" in r or "'callf'" in r or "'feat'" in r


def programs(k, d, ctl=False):
    """All programs with <= k nodes, depth <= d, at least one read.
    (for/with/handler targets are fixed to a / a / b, so no further symmetry reduction is applied.)"""
    for n in range(1, k + 1):
        for p in blocks(n, d, False, False, ctl):
            if has_read(p):
                yield p


def walk(prog):
    for st in prog:
        yield st
        k = st[0]
        if k in ('if', 'while'):
            for x in walk(st[1]):
                yield x
            for x in walk(st[2]):
                yield x
        elif k == 'for':
            for x in walk(st[2]):
                yield x
            for x in walk(st[3]):
                yield x
        elif k == 'with':
            for x in walk(st[2]):
                yield x
        elif k == 'def':
            for x in walk(st[1]):
                yield x
        elif k == 'try':
            for part in (st[2], st[4], st[5], st[6]):
                for x in walk(part):
                    yield x


def bound_names(body):
    """names the block binds in its own scope (not descending into defs)"""
    out = set()
    for st in body:
        k = st[0]
        if k in ('bind', 'mov'):
            out.add(st[1])
        elif k == 'for':
            out.add(st[1])
            out |= bound_names(st[2]) | bound_names(st[3])
        elif k == 'with':
            out.add(st[1])
            out |= bound_names(st[2])
        elif k in ('if', 'while'):
            out |= bound_names(st[1]) | bound_names(st[2])
        elif k == 'def':
            out.add('f')
        elif k == 'try':
            if st[3]:
                out.add(st[3])
            out |= bound_names(st[2]) | bound_names(st[4]) | bound_names(st[5]) | bound_names(st[6])
        elif k == 'feat':
            from . import features
            out |= features.binds(st)
    return out


# --------------------------------------------------------------------------- rendering

class Site(object):
    __slots__ = ('id', 'var', 'pos', 'scope', 'ckind', 'rclass', 'in_handler')

    def __init__(self, id, var, pos, scope, ckind=None, rclass=None):
        self.id = id
        self.var = var
        self.pos = pos
        self.scope = scope
        self.ckind = ckind     # kind of the binding construct (defs)
        self.rclass = rclass   # syntactic position class (reads)
        self.in_handler = None

    def __repr__(self):
        return 'Site(%d,%s,%s,scope=%s,%s)' % (self.id, self.var, self.pos, self.scope, self.ckind or self.rclass)


class Renderer(object):
    def __init__(self, mode):
        self.mode = mode            # 'plain' | 'strict' | 'lenient'
        self.instr = mode != 'plain'
        self.lines = []
        self.reads = {}
        self.defs = {}
        self.n = 0
        self.handler_stack = []

    def nid(self):
        self.n += 1
        return self.n

    def emit(self, ind, text):
        self.lines.append('    ' * ind + text)
        return len(self.lines)

    def read(self, v, ln, col, scope, rclass):
        r = self.nid()
        s = Site(r, v, (ln, col), scope, rclass=rclass)
        s.in_handler = self.handler_stack[-1] if self.handler_stack else None
        self.reads[r] = s
        return r

    def rexpr(self, r, v):
        return '_u(%d, %s, %s__s)' % (r, v, v) if self.instr else v

    def define(self, v, ln, col, scope, ckind):
        d = self.nid()
        self.defs[d] = Site(d, v, (ln, col), scope, ckind=ckind)
        return d

    def shadow(self, v, d, ind):
        if self.instr:
            self.emit(ind, '%s__s = %d' % (v, d))

    def prebind(self, names, ind):
        if self.mode == 'lenient':
            for v in sorted(names):
                self.emit(ind, '%s = _UNB; %s__s = 0' % (v, v))

    def block(self, body, ind, scope):
        if not body:
            self.emit(ind, 'pass')
        for s in body:
            self.stmt(s, ind, scope)

    def stmt(self, s, ind, scope):
        k = s[0]
        c0 = ind * 4
        nl = len(self.lines) + 1
        if k == 'bind':
            d = self.define(s[1], nl, c0, scope, 'assign')
            self.emit(ind, '%s = 0' % s[1])
            self.shadow(s[1], d, ind)
        elif k == 'use':
            r = self.read(s[1], nl, c0, scope, 'expr-stmt')
            self.emit(ind, self.rexpr(r, s[1]))
        elif k == 'mov':
            r = self.read(s[2], nl, c0 + len(s[1]) + 3, scope, 'assign-value')
            d = self.define(s[1], nl, c0, scope, 'assign')
            self.emit(ind, '%s = %s' % (s[1], self.rexpr(r, s[2])))
            self.shadow(s[1], d, ind)
        elif k == 'if':
            self.emit(ind, 'if _o():')
            self.block(s[1], ind + 1, scope)
            if s[2]:
                self.emit(ind, 'else:')
                self.block(s[2], ind + 1, scope)
        elif k == 'while':
            w = self.nid()
            self.emit(ind, 'while _w(%d):' % w if self.instr else 'while _o():')
            self.block(s[1], ind + 1, scope)
            if s[2]:
                self.emit(ind, 'else:')
                self.block(s[2], ind + 1, scope)
        elif k == 'for':
            d = self.define(s[1], nl, c0 + 4, scope, 'for-target')
            self.emit(ind, 'for %s in _it():' % s[1])
            self.shadow(s[1], d, ind + 1)
            self.block(s[2], ind + 1, scope)
            if s[3]:
                self.emit(ind, 'else:')
                self.block(s[3], ind + 1, scope)
        elif k == 'with':
            d = self.define(s[1], nl, c0 + 14, scope, 'with-target')
            self.emit(ind, 'with _cm() as %s:' % s[1])
            self.shadow(s[1], d, ind + 1)
            self.block(s[2], ind + 1, scope)
        elif k == 'def':
            d = self.define('f', nl, c0 + 4, scope, 'def')
            self.emit(ind, 'def f():')
            self.prebind(bound_names(s[1]), ind + 1)
            self.block(s[1], ind + 1, d)
            self.shadow('f', d, ind)
        elif k == 'callf':
            r = self.read('f', nl, c0, scope, 'call-func')
            self.emit(ind, self.rexpr(r, 'f') + '()')
        elif k == 'ret':
            self.emit(ind, 'return')
        elif k == 'brk':
            self.emit(ind, 'break')
        elif k == 'cont':
            self.emit(ind, 'continue')
        elif k == 'mayraise':
            self.emit(ind, '_r()')
        elif k == 'try':
            _, rz, body, hn, hb, eb, fb = s
            self.emit(ind, 'try:')
            if rz in ('first', 'both'):
                self.emit(ind + 1, '_r()')
            self.block(body, ind + 1, scope)
            if rz in ('last', 'both'):
                self.emit(ind + 1, '_r()')
            if rz != 'nohandler':
                hl = len(self.lines) + 1
                if hn:
                    d = self.define(hn, hl, c0, scope, 'except-name')
                    self.emit(ind, 'except E_ as %s:' % hn)
                    self.shadow(hn, d, ind + 1)
                    self.handler_stack.append(d)
                else:
                    self.emit(ind, 'except E_:')
                    self.handler_stack.append(0)
                self.block(hb, ind + 1, scope)
                self.handler_stack.pop()
            if eb:
                self.emit(ind, 'else:')
                self.block(eb, ind + 1, scope)
            if fb:
                self.emit(ind, 'finally:')
                self.block(fb, ind + 1, scope)
        elif k == 'feat':
            from . import features
            features.render(self, s, ind, scope)
        else:
            raise ValueError(s)


def render(prog, mode):
    r = Renderer(mode)
    if mode == 'lenient':
        from . import features
        names = set(V) | {'f'} | bound_names(prog)
        r.prebind(names, 0)
    r.block(prog, 0, 0)
    r.text = '\n'.join(r.lines) + '\n'
    return r


# --------------------------------------------------------------------------- execution under E1

class E_(Exception):
    pass


class _Unbound(object):
    def __call__(self, *a, **k):
        return self

    def __iter__(self):
        return iter(())

    def __enter__(self):
        return self

    def __exit__(self, *a):
        return False

    def __getattr__(self, n):
        return self

    def __repr__(self):
        return '_UNB'

    # the value of a never-bound variable must flow through any expression of a generated program (lenient semantics)
    def _same(self, *a):
        return self
    __add__ = __radd__ = __sub__ = __rsub__ = __mul__ = __rmul__ = __getitem__ = __or__ = __ror__ = __and__ = __rand__ = _same
    __neg__ = __pos__ = __invert__ = __mod__ = __rmod__ = __truediv__ = __floordiv__ = __matmul__ = __rmatmul__ = _same

    def __lt__(self, o):
        return False
    __gt__ = __le__ = __ge__ = __lt__

    def __len__(self):
        return 0

    def __format__(self, spec):
        return '_UNB'

    def __hash__(self):
        return 0

    def __index__(self):
        return 0

    def keys(self):
        return []


_UNB = _Unbound()


class _CM(object):
    def __init__(self, v=0, *a):
        self.v = v

    def __enter__(self):
        return self.v

    def __exit__(self, *a):
        return False


ORACLE_NAMES = ('_o', '_it', '_r', '_cm', 'E_', '_w', '_u', '_UNB', '_null', '_id', '_dec', '_mk', '_ait', '_acm', '_arun')


def install_builtins():
    """supp's builtin scope must know the oracle names used in plain texts."""
    for n in ORACLE_NAMES:
        if not hasattr(builtins, n):
            setattr(builtins, n, None)


def execute(code, ch, modules=None):
    """One CPython execution of the instrumented program under chooser ch -> list of observations."""
    obs = []
    wc = collections.Counter()

    def _o():
        return bool(ch.choose(2, 0, 'o'))

    def _it(x=0, *a):
        return [x] * ch.choose(3, 0, 'it')

    class _AIt(object):
        def __init__(self, n):
            self.n = n

        def __aiter__(self):
            return self

        async def __anext__(self):
            if self.n <= 0:
                raise StopAsyncIteration
            self.n -= 1
            return 0

    def _ait():
        return _AIt(ch.choose(3, 0, 'ait'))

    class _ACM(object):
        async def __aenter__(self):
            return 0

        async def __aexit__(self, *a):
            return False

    def _arun(coro):
        try:
            coro.send(None)
        except StopIteration:
            pass

    def _w(site):
        if wc[site] >= 2:
            wc[site] = 0
            return False
        if ch.choose(2, 0, 'w'):
            wc[site] += 1
            return True
        wc[site] = 0
        return False

    def _r():
        if ch.choose(2, 0, 'r'):
            raise E_()

    def _u(r, val, site):
        # a finally block that runs because a NameError is propagating is outside the structured
        # fragment ("exceptions ... always caught"): the read is recorded as reached, its site is not
        obs.append((r, site, isinstance(sys.exc_info()[1], NameError)))
        return val

    def _null(*a, **k):
        return _CM()

    def _id(x=None, *a, **k):
        return x

    def _dec(*a, **k):
        return lambda f: f

    g = {'__builtins__': dict(vars(builtins), _o=_o, _it=_it, _w=_w, _r=_r, _u=_u, _cm=_CM, E_=E_, _UNB=_UNB,
                              _null=_null, _id=_id, _dec=_dec, _mk=_CM, _ait=_ait, _acm=_ACM, _arun=_arun),
         '__name__': 'prog'}
    if modules:
        g['__builtins__']['__import__'] = modules
    try:
        exec(code, g)
    except (NameError, E_):
        pass
    except RecursionError:
        obs.append(('recursion', 0, False))
    except Exception:
        # two features next to each other may not fit at run time (list + int ...): that execution just ends there
        obs.append(('error', 0, False))
    return obs


class TreeTooLarge(RuntimeError):
    pass


class Truth(object):
    __slots__ = ('reach', 'unbound', 'reached', 'nexec', 'nodes', 'errors')


def ground_truth(text, mode, modules=None, max_exec=20000):
    """Explore EVERY execution of the instrumented text (no deviation bound).

    reach[r]   = set of binding sites observed to supply read r
    unbound[r] = True if (lenient) some execution reached r with shadow site 0
    reached[r] = True if some execution evaluated r successfully
    """
    code = compile(text, '<instr:%s>' % mode, 'exec')
    t = Truth()
    t.reach = collections.defaultdict(set)
    t.unbound = collections.defaultdict(bool)
    t.reached = collections.defaultdict(bool)
    t.nodes = 0
    t.errors = 0

    def on_exec(x):
        t.nodes += len(x.trace)
        for o in x.obs:
            if o[0] == 'error':
                t.errors += 1
                continue
            if o[0] == 'recursion':
                continue
            r, site, unwinding = o
            t.reached[r] = True
            if unwinding:
                continue
            if site == 0:
                t.unbound[r] = True
            else:
                t.reach[r].add(site)

    t.nexec, left = e1.explore(lambda ch: execute(code, ch, modules), bound=None, on_exec=on_exec, max_exec=max_exec)
    if left:
        raise TreeTooLarge('execution tree larger than %d: %s' % (max_exec, text))
    return t
