"""Real corpora, finite and visited completely (DESIGN 1.4)."""
import os
import ast
import glob
import sysconfig

from .common import REPO

NAMED_LARGE = ['ast.py', 'argparse.py', 'difflib.py', 'inspect.py', 'typing.py', 'dataclasses.py', 'functools.py',
               'collections/__init__.py', 'enum.py', 'textwrap.py', 'shlex.py', 'tokenize.py', 'string.py',
               'json/decoder.py', 'json/encoder.py', 'heapq.py', 'contextlib.py', 'fnmatch.py', 'glob.py', 'bisect.py']


def repo_files():
    fs = sorted(glob.glob(os.path.join(REPO, 'supp', '*.py')) + glob.glob(os.path.join(REPO, 'tests', '*.py')))
    return [f for f in fs if os.path.getsize(f) > 0]


def stdlib_files():
    std = sysconfig.get_paths()['stdlib']
    out = []
    for f in sorted(glob.glob(std + '/**/*.py', recursive=True)):
        rel = f[len(std) + 1:]
        if any(p in ('test', 'tests', 'idle_test', 'site-packages', 'lib2to3') for p in rel.split(os.sep)[:-1]):
            continue
        out.append(f)
    return out


def stdlib_subset():
    std = sysconfig.get_paths()['stdlib']
    fs = stdlib_files()
    small = sorted((f for f in fs if os.path.getsize(f) > 200), key=lambda f: (os.path.getsize(f), f))[:60]
    named = [os.path.join(std, n) for n in NAMED_LARGE if os.path.exists(os.path.join(std, n))]
    return sorted(set(small + named))


def files(tier, with_repo=True):
    fs = (repo_files() if with_repo else []) + (stdlib_subset() if tier == 'quick' else stdlib_files())
    return fs


def read(path):
    """-> text or None when the file is not valid UTF-8 / does not parse"""
    try:
        with open(path, encoding='utf-8') as f:
            text = f.read()
        ast.parse(text, path)
        return text
    except (SyntaxError, ValueError, UnicodeDecodeError, RecursionError):
        return None
