"""E2 - explicit-state search over real objects.

    seen = {canon(build([]))}; frontier = deque([[]])
    while frontier:
        hist = frontier.popleft()
        for ev in events:
            obj, obs = build(hist + [ev])        # fresh real object, history replayed, last observation returned
            oracle(hist, ev, obs)
            k = canon(obj)
            if k not in seen: seen.add(k); frontier.append(hist + [ev])

The state key is NOT a hand-picked field list: ``fingerprint`` walks every object reachable from the
root (instances of classes defined in supp.*, and builtin containers) in a deterministic order and
renders every attribute; AST nodes are rendered as (type, line, col), foreign runtime objects by type.
Whatever memo a future refactoring introduces is therefore part of the state automatically.
"""
import ast
import collections
import hashlib
import types

PRIMS = (type(None), bool, int, float, str, bytes, complex)


def _is_supp(o):
    m = type(o).__module__ or ''
    return m == 'supp' or m.startswith('supp.')


def fingerprint(root, digest=True, skip_attrs=(), normalize=(), opaque=()):
    ids = {}
    order = []
    out = []
    opaque_ids = {id(x) for x in opaque}

    def ref(o):
        if isinstance(o, PRIMS):
            return ('p', type(o).__name__, o if not isinstance(o, float) else repr(o))
        if isinstance(o, ast.AST):
            return ('ast', type(o).__name__, getattr(o, 'lineno', None), getattr(o, 'col_offset', None))
        if isinstance(o, (types.ModuleType, types.FunctionType, types.BuiltinFunctionType, type, types.MethodType)):
            return ('x', getattr(o, '__name__', type(o).__name__))
        i = id(o)
        if i in opaque_ids:
            return ('opaque', type(o).__name__)
        if i not in ids:
            ids[i] = len(ids)
            order.append(o)
        return ('r', ids[i])

    ref(root)
    n = 0
    while n < len(order):
        o = order[n]
        n += 1
        if isinstance(o, (list, tuple, collections.deque)):
            out.append((type(o).__name__, tuple(ref(x) for x in o)))
        elif isinstance(o, dict):
            items = [(ref(k), v) for k, v in o.items()]
            # keys that are objects get their index at first encounter: sort primitive keys, keep object keys in insertion order
            prim = sorted([(repr(k), v) for k, v in items if k[0] == 'p'], key=lambda kv: kv[0])
            objs = [(repr(k), v) for k, v in items if k[0] != 'p']
            out.append(('dict', tuple((k, ref(v)) for k, v in prim + objs)))
        elif isinstance(o, (set, frozenset)):
            rs = [ref(x) for x in o]
            if all(r[0] in ('p', 'ast', 'x') for r in rs):
                out.append(('set', tuple(sorted(map(repr, rs)))))
            else:
                # sets of objects: order-insensitive rendering by a shallow description
                out.append(('set', tuple(sorted(repr(shallow(x)) for x in o))))
        elif _is_supp(o) and hasattr(o, '__dict__'):
            d = o.__dict__
            items = []
            for k in sorted(d):
                if k in skip_attrs:
                    continue
                items.append((k, ref(d[k])))
            extra = ()
            if isinstance(o, str):
                extra = (str(o),)
            out.append(('obj', type(o).__name__, extra, tuple(items)))
        elif hasattr(o, '_dicts') and type(o).__name__ == 'MergedDict':
            out.append(('merged', tuple(ref(x) for x in o._dicts)))
        else:
            out.append(('foreign', type(o).__module__, type(o).__name__))
    if digest:
        text = repr(out)
        for s_ in normalize:
            text = text.replace(s_, '<ROOT>')
        return hashlib.sha1(text.encode()).hexdigest()
    return out


def shallow(x):
    return (type(x).__name__, getattr(x, 'name', None), tuple(getattr(x, 'declared_at', ()) or ()), tuple(getattr(x, 'location', ()) or ()))


class Search(object):
    def __init__(self, build, events, canon, max_states=5000, max_depth=None):
        self.build = build
        self.events = events
        self.canon = canon
        self.max_states = max_states
        self.depth_bound = max_depth
        self.states = 0
        self.transitions = 0
        self.max_depth = 0
        self.capped = False
        self.depth_limited = False

    def run(self, on_transition):
        obj, _ = self.build([])
        seen = {self.canon(obj)}
        frontier = collections.deque([[]])
        while frontier:
            hist = frontier.popleft()
            for ev in self.events:
                h2 = hist + [ev]
                obj, obs = self.build(h2)
                self.transitions += 1
                on_transition(hist, ev, obs)
                k = self.canon(obj)
                if k not in seen:
                    if self.depth_bound is not None and len(h2) >= self.depth_bound:
                        self.capped = True
                        self.depth_limited = True      # complete for all histories up to the bound, not to closure
                        continue
                    if len(seen) >= self.max_states:
                        self.capped = True
                        continue
                    seen.add(k)
                    frontier.append(h2)
                    self.max_depth = max(self.max_depth, len(h2))
        self.states = len(seen)
        return self


def bfs_levels(pool, expand, spec, init_key, max_states=20000):
    """Level-synchronous BFS spread over a process pool.

    expand((spec, hist)) -> list of (event, state_key, payload) for EVERY event enabled after hist
    (each built on a fresh real object with the history replayed).  Returns
    (states, transitions, max_depth, capped, payloads) where payloads is the list of
    (hist, event, payload) for every transition whose payload is not None.
    """
    seen = {init_key}
    frontier = [[]]
    transitions = 0
    depth = 0
    capped = False
    payloads = []
    while frontier:
        nxt = []
        results = pool.imap(expand, [(spec, h) for h in frontier], 1) if pool else map(expand, [(spec, h) for h in frontier])
        for h, res in zip(frontier, results):
            if isinstance(res, BaseException):
                raise res
            for ev, key, payload in res:
                transitions += 1
                if payload is not None:
                    payloads.append((h, ev, payload))
                if key not in seen:
                    if len(seen) >= max_states:
                        capped = True
                        continue
                    seen.add(key)
                    nxt.append(h + [ev])
        if nxt:
            depth += 1
        frontier = nxt
    return len(seen), transitions, depth, capped, payloads


_MEMO_HOME = [None]


def _is_memo_obj(v):
    # objects of the module the memo roots come from (supp.name): scopes, modules and projects are not followed
    return type(v).__module__ == _MEMO_HOME[0]


def runtime_memo_summary(names):
    """Which memo cells of a tree of supp RuntimeName objects are filled (their CONTENT is a function of the runtime
    object they wrap, so the set of filled cells is the state): sorted list of dotted paths.  Nothing here knows
    the names of the cells: a cell is any instance attribute, and the walk follows every attribute that holds a
    supp object or a dict of supp objects (so renaming a cache attribute changes no verdict)."""
    out = []
    stack = [('', n) for n in names.values()] if isinstance(names, dict) else []
    if stack:
        _MEMO_HOME[0] = type(stack[0][1]).__module__
    seen = set()
    while stack:
        path, n = stack.pop()
        if id(n) in seen:
            continue
        seen.add(id(n))
        d = getattr(n, '__dict__', None)
        if not isinstance(d, dict):
            continue
        here = path + '.' + str(d.get('name', '?'))
        cells = []
        for k in sorted(d):
            v = d[k]
            if isinstance(v, dict) and v and all(_is_memo_obj(x) for x in v.values()):
                cells.append(k)
                if len(path) < 60:
                    for x in v.values():
                        stack.append((here, x))
            elif _is_memo_obj(v) and not isinstance(v, type):
                cells.append(k)
                if len(path) < 60:
                    stack.append((here + '()', v))
            elif isinstance(v, bool) and v:
                cells.append(k)
            elif isinstance(v, dict) and not v:
                cells.append(k)
        if cells:
            out.append((here, tuple(cells)))
    return tuple(sorted(out))
