"""C13 - the analysis depends on program structure, not on layout.

E3, deviation-bounded on layout choices: for every generated program the default rendering is
re-laid-out at every applicable site by every layout operator (<=1 deviation quick, <=2 thorough);
each variant must parse to an identical AST (ast.dump without positions) and must yield the same
diagnostics (code, message, in order) and, for corresponding reads (same index in AST order), the
same visible-name set and the same alternatives (bindings matched by (identifier, ordinal)).
Corpus: original text versus its ast.unparse normal form.
"""
import ast
import os
import re
import itertools

from .common import Part, watchdog
from . import corpus
from . import progspace as ps
from . import names_run
from . import namecheck as nc

from supp.util import Source, get_name_usages, np
from supp.nast import extract_scope
from supp.linter import lint
from supp.project import Project
from supp.name import MultiName, UndefinedName, RuntimeName

P = Project([nc.PROJECT_DIR])


def dump(text):
    return ast.dump(ast.parse(text), include_attributes=False)


# ------------------------------------------------------------------ layout operators: text -> list of (site label, new text)

SIMPLE = re.compile(r'^(\s*)(?!(if|elif|else|for|while|try|except|finally|with|def|class|async|@)\b)(\S.*)$')


def lines_of(text):
    return text.rstrip('\n').split('\n')


def op_indent(text):
    ls = lines_of(text)
    for label, unit in (('indent-1', ' '), ('indent-2', '  '), ('indent-8', ' ' * 8), ('indent-tab', '\t')):
        out = []
        for l in ls:
            n = len(l) - len(l.lstrip(' '))
            out.append(unit * (n // 4) + l.lstrip(' '))
        yield label, '\n'.join(out) + '\n'


def op_blank(text):
    ls = lines_of(text)
    for i in range(len(ls) + 1):
        yield 'blank@%d' % i, '\n'.join(ls[:i] + [''] + ls[i:]) + '\n'


def op_comment(text):
    ls = lines_of(text)
    for i, l in enumerate(ls):
        if l.rstrip().endswith('\\'):
            continue
        yield 'comment@%d' % i, '\n'.join(ls[:i] + [l + '  # a = b; f()'] + ls[i + 1:]) + '\n'
        ind = l[:len(l) - len(l.lstrip())]
        yield 'comment-line@%d' % i, '\n'.join(ls[:i] + [ind + '# b = 0'] + ls[i:]) + '\n'


def op_semicolon(text):
    ls = lines_of(text)
    for i in range(len(ls) - 1):
        a, b = SIMPLE.match(ls[i]), SIMPLE.match(ls[i + 1])
        if a and b and a.group(1) == b.group(1) and not ls[i].rstrip().endswith(('\\', ',', '(')):
            yield 'join@%d' % i, '\n'.join(ls[:i] + [ls[i] + '; ' + ls[i + 1].lstrip()] + ls[i + 2:]) + '\n'
    for i, l in enumerate(ls):
        if SIMPLE.match(l) and not l.rstrip().endswith(('\\', ',', '(')):
            yield 'trailing-semicolon@%d' % i, '\n'.join(ls[:i] + [l + ';'] + ls[i + 1:]) + '\n'


def op_oneline(text):
    ls = lines_of(text)
    for i in range(len(ls) - 1):
        head = ls[i]
        if not head.rstrip().endswith(':'):
            continue
        hi = len(head) - len(head.lstrip())
        body = ls[i + 1]
        bi = len(body) - len(body.lstrip())
        if bi <= hi or not SIMPLE.match(body):
            continue
        # the body must be exactly one line
        if i + 2 < len(ls):
            ni = len(ls[i + 2]) - len(ls[i + 2].lstrip())
            if ni >= bi and ls[i + 2].strip():
                continue
        yield 'oneline@%d' % i, '\n'.join(ls[:i] + [head + ' ' + body.lstrip()] + ls[i + 2:]) + '\n'


def op_break_expr(text):
    ls = lines_of(text)
    for i, l in enumerate(ls):
        m = re.match(r'^(\s*)(\w+(?:, \*?\w+)*) = (.+)$', l)
        if m and not l.rstrip().endswith('\\'):
            ind, tgt, val = m.groups()
            yield 'paren-value@%d' % i, '\n'.join(ls[:i] + ['%s%s = (' % (ind, tgt), '%s        %s' % (ind, val), '%s)' % ind] + ls[i + 1:]) + '\n'
            yield 'backslash-value@%d' % i, '\n'.join(ls[:i] + ['%s%s = \\' % (ind, tgt), '%s    %s' % (ind, val)] + ls[i + 1:]) + '\n'
            yield 'spaces-around@%d' % i, '\n'.join(ls[:i] + ['%s%s   =   %s' % (ind, tgt, val)] + ls[i + 1:]) + '\n'
        j = l.find('(')
        if j > 0 and l.count('(') == l.count(')') and not l.lstrip().startswith('#') and '"' not in l and "'" not in l:
            k = l.rfind(')')
            inner = l[j + 1:k]
            yield 'break-in-call@%d' % i, '\n'.join(ls[:i] + [l[:j + 1], inner if inner.strip() else '', l[k:]] + ls[i + 1:]) + '\n'
        if ', ' in l and ('(' in l or '[' in l) and '"' not in l and "'" not in l and not l.lstrip().startswith(('def ', 'async def', 'class ', 'lambda')) and l.count('(') + l.count('[') + l.count('{') > 0:
            # break after the first comma that is inside brackets
            depth = 0
            for p, ch in enumerate(l):
                if ch in '([{':
                    depth += 1
                elif ch in ')]}':
                    depth -= 1
                elif ch == ',' and depth > 0:
                    yield 'break-after-comma@%d' % i, '\n'.join(ls[:i] + [l[:p + 1], '        ' + l[p + 1:].lstrip()] + ls[i + 1:]) + '\n'
                    break


def op_decorator(text):
    """@expr  ->  @(  <newline, LESS indentation>  expr)   and   @ \\ <newline> expr"""
    ls = lines_of(text)
    for i, l in enumerate(ls):
        m = re.match(r'^(\s*)@(.+)$', l)
        if m:
            ind, expr = m.groups()
            yield 'decorator-paren-dedent@%d' % i, '\n'.join(ls[:i] + [ind + '@(', expr.strip() + ')'] + ls[i + 1:]) + '\n'
            yield 'decorator-backslash@%d' % i, '\n'.join(ls[:i] + [ind + '@ \\', ' ' + expr.strip()] + ls[i + 1:]) + '\n'


OPS = [op_indent, op_blank, op_comment, op_semicolon, op_oneline, op_break_expr, op_decorator]


def variants(text, ref_dump, depth=1):
    """all layouts <= depth deviations away that are AST-identical to the default"""
    seen = {text}
    level = [(text, ())]
    for d in range(depth):
        nxt = []
        for t, path in level:
            for op in OPS:
                for label, new in op(t):
                    if new in seen:
                        continue
                    try:
                        if dump(new) != ref_dump:
                            continue
                    except (SyntaxError, ValueError):
                        continue
                    seen.add(new)
                    nxt.append((new, path + (label,)))
                    yield new, path + (label,)
        level = nxt


# ------------------------------------------------------------------ the observation that must be layout independent

def observe(text, fn):
    with watchdog(120):
        L = lint(P, text, fn)
    diags = [(x[0], x[1]) for x in L]
    s = Source(text, fn)
    scope = extract_scope(s, P)
    ords = {}
    for flow, name in sorted(scope.all_names, key=lambda fn_: (fn_[1].name, tuple(getattr(fn_[1], 'declared_at', (0, 0))))):
        if hasattr(name, 'declared_at'):
            lst = ords.setdefault(name.name, [])
            pos = tuple(name.declared_at)
            if pos not in lst:
                lst.append(pos)
    for k in ords:
        ords[k].sort()
    reads = []
    for n in get_name_usages(s.tree):
        if not hasattr(n, 'flow'):
            reads.append((n.id, 'unvisited'))
            continue
        names = n.flow.names_at(np(n))
        visible = tuple(sorted(k for k in names if not k.startswith('__')))
        nm = names.get(n.id)
        if nm is None:
            alts = None
        else:
            xs = nm.alt_names if isinstance(nm, MultiName) else [nm]
            al = []
            for x in xs:
                if isinstance(x, UndefinedName):
                    al.append('U')
                elif isinstance(x, RuntimeName):
                    al.append('builtin')
                else:
                    pos = tuple(getattr(x, 'declared_at', ()) or ())
                    lst = ords.get(x.name, [])
                    al.append((type(x).__name__, x.name, lst.index(pos) if pos in lst else -1))
            alts = tuple(sorted(map(str, al)))
        reads.append((n.id, hash(visible) & 0xffffff, len(visible), alts))
    return diags, reads


def compare(base, other):
    bd, br = base
    od, orr = other
    if bd != od:
        extra = [d for d in od if d not in bd]
        missing = [d for d in bd if d not in od]
        kind = (extra or missing or [('order', '')])[0][0]
        return 'diagnostics:%s' % kind, 'diagnostics differ: default layout %s, variant %s' % (bd, od)
    if len(br) != len(orr):
        return 'reads-count', 'number of reads differs'
    for i, (a, b) in enumerate(zip(br, orr)):
        if a != b:
            if a[0] != b[0]:
                return 'reads-misaligned', 'read %d is %s vs %s' % (i, a[0], b[0])
            field = 'visible-names' if a[1:3] != b[1:3] else 'alternatives'
            return field, 'read #%d `%s`: default layout sees %s, variant sees %s' % (i, a[0], a[1:], b[1:])
    return None


def op_class(label):
    return label.split('@')[0]


def check_text(text, fn, label, part, depth):
    out = []
    try:
        ref = dump(text)
        base = observe(text, fn)
    except RecursionError:
        part.count('crashes')
        return out
    except Exception:
        part.count('crashes')
        return out
    seen = set()
    for new, path in variants(text, ref, depth):
        part.count('layouts')
        part.count('evaluations')
        try:
            obs = observe(new, fn)
        except Exception as e:
            obs = None
            r = ('crash:%s' % type(e).__name__, 'variant makes the analysis raise %r' % e)
        else:
            r = compare(base, obs)
        if r:
            sig = '%s:layout=%s' % (r[0], '+'.join(op_class(p) for p in path))
            if sig not in seen:
                seen.add(sig)
                out.append((sig, '%s [%s]: %s\n--- default layout ---\n%s--- variant ---\n%s' % (label, ' '.join(path), r[1], text, new),
                            {'kind': 'pair', 'text': text, 'variant': new, 'path': list(path)}))
    return out


def check_unparse(path, part):
    out = []
    text = corpus.read(path)
    if text is None:
        part.count('files_skipped')
        return out
    try:
        norm = ast.unparse(ast.parse(text)) + '\n'
        if dump(norm) != dump(text):
            part.count('unparse_not_identical')
            return out
        base = observe(text, path)
        obs = observe(norm, path)
    except RecursionError:
        part.count('crashes')
        return out
    except Exception:
        part.count('crashes')
        return out
    part.count('evaluations')
    part.count('files')
    r = compare(base, obs)
    if r:
        out.append(('%s:layout=unparse' % r[0], '%s vs its ast.unparse form: %s' % (os.path.basename(path), r[1][:600]), {'kind': 'file', 'path': path}))
    return out


# ------------------------------------------------------------------ units

# expressions whose AST child order is not their source order (keyword before *args, conditional expression, dict display with **,
# class keywords before *bases, chained comparison, call of a call, subscripts, f-strings): where such an expression ENDS decides
# whether the target of the assignment it is the value of is already bound for a read inside it and for the read after it
OUT_OF_ORDER = [h + t for h in ('', 'value = 0\n') for t in (
    'def g(*a, **k):\n    return a, k\nvalue = g(key=1, *value)\nprint(value)\n',
    'def g(*a, **k):\n    return a, k\nvalue = g(key=g(), *[value, g(k=2, *value)])\nprint(value)\n',
    'def g(*a, **k):\n    return a, k\nvalue = g(k1=1, *value, k2=value, **value)\nprint(value)\n',
    'value = [1, 2] if value else [value, 3]\nprint(value)\n',
    'value = {**{1: 2}, 3: value, **value}\nprint(value)\n',
    'class M(type):\n    pass\nclass value(metaclass=M, *value):\n    pass\nprint(value)\n',
    'value = (1 < 2, value < 3 < value)\nprint(value)\n',
    'value = f"{1!r:>{value}} {value}"\nprint(value)\n',
    'def g(*a, **k):\n    return g\nvalue = g(k=1, *value)(2, value)[value, 3]\nprint(value)\n',
    'value = [(value, y) for y in (1, value)]\nprint(value)\n',
    'value = lambda a, *value, k=value, **kw: (a, value)\nprint(value)\n',
)]

_SP = {}


def space(tier):
    if tier in _SP:
        return _SP[tier]
    k = 3 if tier == 'quick' else 4
    progs = [('core', p) for p in ps.programs(k, 2, ctl=False)]
    progs += [('ctl', p) for p in ps.programs(3, 2, ctl=True)]
    progs += [('feat', p) for p in names_run.feature_programs(1)]
    # decorated definitions as the first statement of a block whose header binds the name the decorator reads
    deco = {'def-decorator', 'class-decorator', 'comp-in-decorator', 'plain-comp-in-decorator', 'def-annotations', 'def-param-default', 'class-bases'}
    progs += [('feat-nested', p) for p in names_run.feature_programs(2, names=deco)]
    progs += [('raw', t) for t in OUT_OF_ORDER]
    seen = set()
    out = []
    for o, p in progs:
        if p not in seen:
            seen.add(p)
            out.append((o, p))
    _SP[tier] = out
    return out


def unit_progs(arg):
    tier, lo, hi, depth = arg
    part = Part()
    for origin, prog in space(tier)[lo:hi]:
        text = prog if origin == 'raw' else ps.render(prog, 'plain').text
        part.count('programs')
        for sig, what, wit in check_text(text, nc.FILE, 'generated program', part, 2 if origin == 'raw' else depth if origin != 'core' or len(repr(prog)) < 60 else 1):
            part.violation(sig, what, wit)
    part.outcome(('progs', lo, part.counters['layouts']))
    if lo == 0:
        t = ps.render(space(tier)[40][1], 'plain').text
        vs = [(' '.join(p), n) for n, p in itertools.islice(variants(t, dump(t), 1), 4)]
        part.sample({'default': t, 'variants': vs})
    return part


def unit_file(path):
    part = Part()
    for sig, what, wit in check_unparse(path, part):
        part.violation(sig, what, wit)
    part.outcome(('file', path))
    return part


def _dispatch(u):
    return u[0](u[1])


def replay(w):
    p = Part()
    if w['kind'] == 'pair':
        base = observe(w['text'], nc.FILE)
        try:
            obs = observe(w['variant'], nc.FILE)
        except Exception as e:
            return [('crash:%s:layout=%s' % (type(e).__name__, '+'.join(op_class(x) for x in w['path'])), repr(e))]
        r = compare(base, obs)
        if r:
            return [('%s:layout=%s' % (r[0], '+'.join(op_class(x) for x in w['path'])), r[1])]
        return []
    return [(s, wh) for s, wh, _ in check_unparse(w['path'], p)]


def run(ctx):
    ctx.level = 'exploration'
    sp = space(ctx.tier)
    depth = 1 if ctx.quick else 2
    step = 60
    units = [(unit_progs, (ctx.tier, lo, min(len(sp), lo + step), depth)) for lo in range(0, len(sp), step)]
    units += [(unit_file, f) for f in corpus.files(ctx.tier)]
    ctx.pmap(_dispatch, ctx.shuffled(units), chunksize=1)
    c = ctx.counters
    ctx.counters['distinct_nontrivial'] = int(c['layouts']) + int(c['files'])
    ctx.coverage.update({
        'rule': 'every generated program (core k<=%d, control-flow leaves k<=3, every feature alone and next to one leaf) x every AST-identical layout '
                '<=%d operator applications away from the default (indent width/tab, blank line, comments, ; joins, one-line compound, bracket/backslash breaks, spacing); '
                'corpus files versus ast.unparse; distinct_nontrivial = distinct layouts compared + files' % (3 if ctx.quick else 4, depth),
        'programs': int(c['programs']),
        'layouts': int(c['layouts']),
        'files_vs_unparse': int(c['files']),
    })
    ctx.assumptions += [
        'ast.dump equality (without positions) certifies that a layout is equivalent',
        'per-read views are taken from one scope per text in AST order (C04 establishes that query order does not matter)',
        'files whose unparse form is not AST-identical or on which the analysis crashes are counted and skipped',
    ]
