import m2 as shadow
__all__ = ['pub', '_listed', 'fn_all']
pub = 1
_listed = 2
hidden = 3


def fn_all():
    return hidden
