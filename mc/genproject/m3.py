import os
if os.name == "a":
    backend = 1
elif os.name == "b":
    backend = 2
if os.sep:
    if os.curdir:
        helper = 1
else:
    if os.pardir:
        helper = 2
