from .sub import s1
p0 = 0
