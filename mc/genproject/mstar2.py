from m1 import *
from m2 import z2 as zz2
own2 = 1
