x1 = 1
y1 = 2


def fn1():
    return 1


class K1:
    attr = 1
