x2 = 1
if x2:
    z2 = 1
else:
    z2 = 2
_private2 = 3
