from m1 import x1, K1 as KK
from mstar2 import *
