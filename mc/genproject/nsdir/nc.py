v_nc = 1
