v_na = 1
