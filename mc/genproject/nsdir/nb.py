v_nb = 1
