v_Nd = 1
