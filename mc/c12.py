"""C12 - completion contract: exact prefix, clean sorted proposals, transparent cursor.

E3: for every text (generated programs, feature programs, repository files): every cursor inside and
at the end of every name read, attribute access and import name; for generated programs the read is
additionally re-rendered after every preceding-context class.
Oracle: prefix == the longest run of identifier characters left of the cursor; proposals sorted,
duplicate-free identifiers without the cursor marker; mark transparency: at the end of / inside a bare
Name(Load) the proposals equal the names the analysis of the UNMARKED source makes visible at the
cursor; after `expr.` they equal attr_list(evaluate(expr)) of the unmarked analysis (fresh scope per cursor).
"""
import ast
import os
import re
import keyword

from .common import Part, watchdog, Timeout
from . import corpus
from . import progspace as ps
from . import names_run
from . import namecheck as nc

from supp.assistant import assist
from supp.project import Project
from supp.util import Source, np
from supp.nast import extract_scope
from supp.evaluator import EvalCtx

MARK = '__supp_mark__'
IDENT = re.compile(r'\w*$')


def ident_run(text):
    """longest run of identifier characters at the end of text (XID_Continue: a combining mark continues an identifier, \\w does not see it)"""
    i = len(text)
    while i > 0 and ('a' + text[i - 1]).isidentifier():
        i -= 1
    return text[i:]


def project_for(fn):
    if fn.startswith(nc.PROJECT_DIR):
        return Project([nc.PROJECT_DIR])
    return Project([os.path.dirname(os.path.dirname(fn))])


def contract(text, pos, fn, label, part):
    """prefix / cleanliness part of the contract for an arbitrary cursor -> (result or None, [violations])"""
    out = []
    ln, col = pos
    lines = text.splitlines() or ['']
    line = lines[ln - 1] if ln <= len(lines) else ''
    try:
        with watchdog(30):
            r = assist(project_for(fn), text, pos, fn)
    except Timeout:
        out.append(('no-termination', '%s: assist at %s does not terminate within 30 s' % (label, pos)))
        return None, out
    except SyntaxError:
        part.count('cursors_syntax_error')
        return None, out
    except Exception as e:
        part.count('assist_crashes')       # totality is C08's business
        return None, out
    part.count('cursors')
    try:
        pre, props = r
    except Exception:
        out.append(('malformed-result', '%s: assist at %s returned %r' % (label, pos, r)))
        return None, out
    want = ident_run(line[:col])
    if pre != want:
        before = line[:col][-len(want) - 1:-len(want)] if len(line[:col]) > len(want) else '^'
        out.append(('prefix:after-%s' % char_class(before), '%s: assist at %s returns prefix %r, identifier characters left of the cursor are %r (line %r)' % (
            label, pos, pre, want, line[:60])))
    if list(props) != sorted(props):
        out.append(('proposals-unsorted', '%s: assist at %s proposals are not sorted' % (label, pos)))
    if len(set(props)) != len(props):
        out.append(('proposals-duplicates', '%s: assist at %s has duplicate proposals' % (label, pos)))
    leak = [p for p in props if MARK in p]
    if leak:
        out.append(('marker-leak', '%s: assist at %s proposes %r' % (label, pos, leak[:3])))
    bad = [p for p in props if not (isinstance(p, str) and p.isidentifier())]
    if bad and not leak:
        out.append(('proposal-not-identifier', '%s: assist at %s proposes %r' % (label, pos, bad[:3])))
    return (pre, props), out


def char_class(ch):
    if ch == '^' or ch == '':
        return 'line-start'
    if ch.isspace():
        return 'space'
    if ch == '.':
        return 'dot'
    if ch in '([{':
        return 'open-' + {'(': 'paren', '[': 'bracket', '{': 'brace'}[ch]
    if ch in ',=:':
        return {',': 'comma', '=': 'equals', ':': 'colon'}[ch]
    if ch in '+-*/%<>!&|^~@':
        return 'operator'
    if ch in '"\'#':
        return 'quote-or-hash'
    return 'other'


def check_text(text, fn, label, part, every=1, chunk=0, nchunks=1):
    """all name/attribute cursors of one text -> list of (sig, what, witness)"""
    out = []
    seen = set()

    def add(sig, what, pos):
        if sig not in seen:
            seen.add(sig)
            out.append((sig, what, {'kind': 'cursor', 'text': text, 'pos': list(pos), 'fn': fn, 'label': label}))

    try:
        tree = ast.parse(text)
    except (SyntaxError, RecursionError):
        return out
    P = project_for(fn)
    nodes = [n for n in ast.walk(tree) if isinstance(n, (ast.Name, ast.Attribute))]
    for idx, n in enumerate(nodes):
        if every > 1 and idx % every:
            continue
        if (idx // every) % nchunks != chunk:
            continue
        if isinstance(n, ast.Name):
            if not isinstance(n.ctx, ast.Load) or keyword.iskeyword(n.id):
                continue
            start = n.col_offset
            cursors = sorted({start + len(n.id), start + max(1, len(n.id) // 2)})
            for c in cursors:
                pos = (n.lineno, c)
                r, vs = contract(text, pos, fn, label, part)
                for sig, what in vs:
                    add(sig + ':name', what, pos)
                if r is None:
                    continue
                # unmarked reference on a scope extracted afresh for this cursor
                try:
                    s = Source(text, fn)
                    extract_scope(s, P)
                    node = [x for x in ast.walk(s.tree) if isinstance(x, ast.Name) and np(x) == np(n) and x.id == n.id and isinstance(x.ctx, ast.Load)][0]
                    if not hasattr(node, 'flow'):
                        part.count('unvisited_reads')
                        continue
                    exp = sorted(node.flow.names_at(pos))
                except RecursionError:
                    continue
                part.count('transparency_checks')
                if list(r[1]) != exp:
                    d = sorted(set(r[1]) ^ set(exp))
                    add('mark-changes-visible-names:%s' % ('end' if c == start + len(n.id) else 'inside'),
                        '%s: cursor %s in `%s`: proposals differ from the names visible in the unmarked analysis by %s' % (label, pos, n.id, d[:6]), pos)
        else:
            if n.value.end_lineno != n.end_lineno:
                continue
            astart = n.end_col_offset - len(n.attr)
            line = text.splitlines()[n.end_lineno - 1]
            if line[astart:n.end_col_offset] != n.attr or not line.isascii():
                continue
            for c in sorted({astart, astart + len(n.attr), astart + max(1, len(n.attr) // 2)}):
                pos = (n.end_lineno, c)
                r, vs = contract(text, pos, fn, label, part)
                ctxk = 'store' if isinstance(n.ctx, ast.Store) else 'load'
                for sig, what in vs:
                    add(sig + ':attr-' + ctxk, what, pos)
                if r is None:
                    continue
                try:
                    s = Source(text, fn)
                    extract_scope(s, P)
                    node = [x for x in ast.walk(s.tree) if isinstance(x, ast.Attribute) and (x.end_lineno, x.end_col_offset) == (n.end_lineno, n.end_col_offset)
                            and np(x) == np(n)][0]
                    ctx = EvalCtx(P)
                    with watchdog(30):
                        v = ctx.evaluate(node.value)
                        exp = sorted(v.attr_list(ctx)) if v else []
                except RecursionError:
                    part.count('unmarked_recursion_errors')
                    continue
                except Exception:
                    part.count('unmarked_crashes')
                    continue
                part.count('transparency_checks')
                if list(r[1]) != exp:
                    d = sorted(set(r[1]) ^ set(exp))
                    add('mark-changes-attributes:%s' % ctxk,
                        '%s: cursor %s in `.%s`: proposals differ from attr_list of the unmarked analysis by %s' % (label, pos, n.attr, d[:6]), pos)
    # import names: cursor at end and inside of every imported module / member name
    for n in (ast.walk(tree) if chunk == 0 else ()):
        if isinstance(n, (ast.Import, ast.ImportFrom)) and n.lineno == n.end_lineno:
            line = text.splitlines()[n.lineno - 1]
            for m in re.finditer(r'[A-Za-z_][\w.]*', line):
                if m.group() in ('import', 'from', 'as'):
                    continue
                for c in {m.end(), m.start() + max(1, len(m.group()) // 2)}:
                    pos = (n.lineno, c)
                    r, vs = contract(text, pos, fn, label, part)
                    for sig, what in vs:
                        add(sig + ':import', what, pos)
    return out


CONTEXTS = [('space', ' {v}'), ('paren', '({v})'), ('bracket', '[{v}]'), ('brace', '{{{v}}}'), ('comma', '0,{v}'), ('equals', 'zz={v}'),
            ('plus', '0+{v}'), ('minus', '-{v}'), ('star', '[*{v}]'), ('colon', 'lambda:{v}'), ('colon-slice', 'zz[0:{v}]'), ('not', 'not {v}'),
            ('decorator-at', '@{v}\ndef dd(): pass'), ('dict-value', '{{0:{v}}}'), ('keyword-arg', 'print(end={v})'), ('compare', '0<{v}'),
            ('string', '"{v}"'), ('comment', '# {v}'), ('fstring', 'f"{{{v}}}"'), ('attr-after-call', 'print().{v}'), ('subscript-attr', 'zz[0].{v}'),
            ('yield-from', 'def ff():\n    yield from {v}'), ('raise-from', 'raise E_ from {v}'), ('raise-from-call', 'raise E_(0) from {v}'), ('return', 'def ff():\n    return {v}'),
            ('await', 'async def ff():\n    await {v}'), ('in', '0 in {v}'), ('is-not', '0 is not {v}'), ('and', '0 and {v}'), ('if-else', '0 if {v} else 1'),
            ('for-in', 'for q in {v}: pass'), ('assert', 'assert {v}'), ('with', 'with {v}: pass'), ('del-subscript', 'del zz[{v}]'), ('print-arg', 'print(0, {v})'),
            ('import-then', 'import m1; {v}'), ('from-import-then', 'from m1 import x1; {v}'), ('from-in-comment-before', 'zz = 0  # from\n{v}'),
            ('raise-from-continuation', 'raise E_(0) \\\n    from {v}'), ('yield-from-in-parens', 'def ff():\n    zz = (yield\n        from {v})'),
            ('from-inside-brackets', 'zz = [0,\n    from_zz, {v}]'), ('from-in-string-continuation', 'zz = """\nfrom """ + str({v})'),
            # one logical line spread over many physical ones: what starts the statement is far above the cursor
            ('yield-from-far-apart', 'def ff():\n    zz = (yield' + '\n' * 70 + '        from {v})'), ('raise-from-far-apart', 'raise E_(0' + '\n        # filler' * 130 + '\n    ) \\\n    from {v}'),
            ('from-inside-brackets-far-apart', 'zz = [0,' + '\n    0,' * 300 + '\n    from_zz, {v}]'),
            ('lambda-default', 'lambda q={v}: q'), ('starstar', 'dict(**{v})'), ('matmul', '0@{v}'), ('walrus', '(q := {v})'), ('tab', '\t{v}' if False else 'if 1:\n\t{v}')]

IMPORT_CONTEXTS = ['from m1 import x{C}1', 'from m1 import(x{C}1)', 'from m1 import (x1, y{C}1)', 'from m1 import x1,y{C}1', 'from m1 import x1 as zz, y{C}1',
                   'import m{C}1', 'import m1, m{C}2', 'import m1 as zz, m{C}2', 'import pk.s{C}ub', 'from pk.s{C}ub import s1', 'from pk import s{C}ub', 'from pk.sub import s{C}1',
                   'from m1 import\tx{C}1', 'from  m1  import  x{C}1', 'from m1 import \\\n    x{C}1', 'from m1 import (\n    x1,\n    y{C}1,\n)', 'from . import m{C}1', 'from .m1 import x{C}1',
                   'if 1: from m1 import x{C}1', 'import m1; from m2 import x{C}2', 'from m{C}1 import x1', 'from pk.s{C}', 'from pk.{C}', 'import pk.{C}', 'from m1 import {C}',
                   'import x{C}ml.etree.ElementTree', 'import xml.e{C}tree.ElementTree', 'import xml.etree.E{C}lementTree', 'from x{C}ml.etree import ElementTree',
                   'from xml.e{C}tree.ElementTree import XML', 'import p{C}k.sub', 'import os.p{C}ath as zz', 'import json.d{C}ecoder, os']


def context_cases(prog):
    """the program with each expression-statement read re-rendered in every preceding context -> (name, text, cursor)"""
    rp = ps.render(prog, 'plain')
    lines = rp.text.rstrip('\n').split('\n')
    for r, rs in rp.reads.items():
        if rs.rclass != 'expr-stmt':
            continue
        ln, col = rs.pos
        ind = lines[ln - 1][:col]
        for cname, tmpl in CONTEXTS:
            new = tmpl.replace('{v}', '@V@').replace('{{', '{').replace('}}', '}').split('\n')
            body = []
            cur = None
            for k, x in enumerate(new):
                if '@V@' in x and cur is None:
                    cur = (ln + k, len(ind) + x.index('@V@') + len(rs.var))
                body.append(ind + x.replace('@V@', rs.var))
            text = '\n'.join(lines[:ln - 1] + body + lines[ln:]) + '\n'
            try:
                ast.parse(text)
            except SyntaxError:
                continue
            yield cname, text, cur, rs.var


def import_cases():
    for tmpl in IMPORT_CONTEXTS:
        for end in (True, False):
            t = tmpl
            i = t.index('{C}')
            # cursor inside the name ({C}) or at the end of that name
            line_text = t.replace('{C}', '')
            if end:
                j = i
                while j < len(line_text) and (line_text[j].isalnum() or line_text[j] == '_'):
                    j += 1
            else:
                j = i
            before = line_text[:j]
            ln = before.count('\n') + 1
            col = len(before) - (before.rfind('\n') + 1)
            yield tmpl + ('|end' if end else '|inside'), 'zz = 0\n' + line_text + '\n', (ln + 1, col)


_SP = {}


def space(tier):
    if tier in _SP:
        return _SP[tier]
    k = 3 if tier == 'quick' else 4
    out = [p for p in ps.programs(k, 2, ctl=False)]
    if tier == 'quick':
        out = out[::3]
    out += list(names_run.feature_programs(1))
    _SP[tier] = out
    return out


def unit_progs(arg):
    tier, lo, hi = arg
    part = Part()
    for i, prog in enumerate(space(tier)[lo:hi]):
        text = ps.render(prog, 'plain').text
        part.count('evaluations')
        part.count('programs')
        for sig, what, wit in check_text(text, nc.FILE, 'generated program', part):
            part.violation(sig, what + '\n--- source ---\n' + text, wit)
        if (lo + i) % 4 == 0:
            for cname, ctext, pos, var in context_cases(prog):
                part.count('context_cursors')
                r, vs = contract(ctext, pos, nc.FILE, 'context ' + cname, part)
                for sig, what in vs:
                    part.violation(sig + ':ctx-' + cname, what + '\n--- source ---\n' + ctext, {'kind': 'cursor1', 'text': ctext, 'pos': list(pos), 'ctx': cname})
                if (lo + i) % 32 == 0:
                    # mark transparency in that context as well
                    for sig, what, wit in check_text(ctext, nc.FILE, 'context ' + cname, part):
                        part.violation(sig + ':ctx-' + cname, what + '\n--- source ---\n' + ctext, dict(wit, suffix=':ctx-' + cname))
    part.outcome(('progs', lo, part.counters['cursors']))
    return part


def import_reference(text, pos, fn):
    """what the proposals of a cursor inside an import statement must be, computed from the UNMARKED text:
    module part -> children of the package named by the components left of the cursor's component;
    member part (from m import x|) -> children of m plus the attributes of module m"""
    from supp.assistant import list_packages
    ln, col = pos
    line = text.splitlines()[ln - 1]
    try:
        tree = ast.parse(text)
    except SyntaxError:
        return None
    P = project_for(fn)
    for n in ast.walk(tree):
        if isinstance(n, (ast.Import, ast.ImportFrom)) and n.lineno <= ln <= n.end_lineno:
            if isinstance(n, ast.ImportFrom):
                base = '.' * n.level + (n.module or '')
            for a in n.names:
                if not hasattr(a, 'end_col_offset'):
                    return None
                namelen = len(a.name)
                if (a.lineno, a.col_offset) <= (ln, col) <= (a.lineno, a.col_offset + namelen):
                    off = col - a.col_offset
                    left = a.name[:off]
                    head = left.rpartition('.')[0]
                    if isinstance(n, ast.Import):
                        return sorted(list_packages(P, head, fn))
                    try:
                        mod = P.get_nmodule(base, fn)
                        from supp.evaluator import EvalCtx
                        attrs = set(mod.attr_list(EvalCtx(P)))
                    except ImportError:
                        attrs = set()
                    return sorted(set(list_packages(P, base, fn)) | attrs)
            if isinstance(n, ast.ImportFrom) and n.module:
                # cursor in the module part: find it textually on the first line of the statement
                seg = line[:col]
                m = re.search(r'from\s+([.\w]*)$', seg)
                if m:
                    head = m.group(1).rpartition('.')[0]
                    if m.group(1).startswith('.') and not head.strip('.'):
                        head = m.group(1)[:len(m.group(1)) - len(m.group(1).lstrip('.'))]
                    return sorted(list_packages(P, head, fn))
    return None


def unit_imports(_):
    part = Part()
    for label, text, pos in import_cases():
        part.count('evaluations')
        part.count('import_context_cursors')
        r, vs = contract(text, pos, nc.FILE, 'import context ' + label, part)
        for sig, what in vs:
            part.violation(sig + ':import-ctx', what + '\n--- source ---\n' + text, {'kind': 'cursor1', 'text': text, 'pos': list(pos), 'ctx': 'import'})
        if r is not None:
            exp = import_reference(text, pos, nc.FILE)
            if exp is not None:
                part.count('import_proposal_checks')
                if list(r[1]) != exp:
                    d = sorted(set(r[1]) ^ set(exp))
                    part.violation('import-proposals-differ:import-ctx',
                                   'import context %s: cursor %s: proposals differ from the children/attributes the unmarked text names by %s (%d vs %d)\n--- source ---\n%s' % (
                                       label, pos, d[:6], len(r[1]), len(exp), text), {'kind': 'cursor1', 'text': text, 'pos': list(pos), 'ctx': 'import'})
    part.outcome('imports')
    return part


UNICODE_NAMES = ['\u0928\u093e\u092e', 'a\u00b7b', 'e\u0301t\u0301', 'gr\u00f6\u00dfe', 'pa\u0442', 'd\u00e9j\u00e0_x', '\u03c9', 'na\u00efve1', '\u53d8\u91cfx', 'x_\u00e9', '_\u00e9']
UNICODE_TEMPLATES = ['{v} = 1\nprint({v})\n', '{v} = 1\nzz = [0,{v}]\n', 'import os\nos.{v}\n', 'class K:\n    {v} = 1\nK.{v}\n', 'from m1 import {v}\n',
                     'import {v}\n', 'def f({v}=1):\n    return {v}\n', '{v} = 1\nif not {v}:\n    pass\n', 'zz = 1\nzz.{v}\n', 'import pk.{v}\n', 'from pk.{v} import s1\n',
                     'if 1: from m1 import {v}\n', '{v} = 1\nzz = "{v}"\n', '{v} = 1\n\t\n# {v}\n']


def unicode_cases():
    """identifiers with non-ASCII letters (PEP 3131): a cursor after every character of the last occurrence"""
    for v in UNICODE_NAMES:
        for tmpl in UNICODE_TEMPLATES:
            text = tmpl.replace('{v}', v)
            at = text.rindex(v)
            ln = text.count('\n', 0, at) + 1
            col0 = at - (text.rfind('\n', 0, at) + 1)
            for k in range(1, len(v) + 1):
                yield '%s|%d' % (tmpl.split('\n')[-2], k), text, (ln, col0 + k)


SAME_LINE = [('s = "' + '\u00e4\u00f6\u00fc' * 12 + '"; q1 = 1; q2 = 2; print(q', {'q1', 'q2'}),
             ('\u00e4 = "' + '\u00e9' * 30 + '"; q1 = \u00e4; q2 = [q', {'q1'}),
             ('def f(' + '\u00e4' * 30 + ', q1): q2 = 1; return q', {'q1', 'q2'}),
             ('for \u0928\u093e\u092e, q1 in []: q2 = "\u0928\u093e\u092e"; q', {'q1', 'q2'})]


def unit_unicode(_):
    part = Part()
    for text, must in SAME_LINE:
        part.count('evaluations')
        part.count('unicode_cursors')
        pos = (1, len(text))
        r, vs = contract(text + '\n', pos, nc.FILE, 'non-ASCII line', part)
        for sig, what in vs:
            part.violation(sig + ':unicode', what + '\n--- source ---\n' + text, {'kind': 'cursor1', 'text': text + '\n', 'pos': list(pos), 'ctx': 'unicode'})
        if r is not None and not must <= set(r[1]):
            part.violation('same-line-names-missing:unicode', 'assist at the end of %r lacks %s, bound earlier on that line (columns counted in bytes?)' % (text, sorted(must - set(r[1]))),
                           {'kind': 'unicode-line', 'text': text})
    for label, text, pos in unicode_cases():
        part.count('evaluations')
        part.count('unicode_cursors')
        r, vs = contract(text, pos, nc.FILE, 'non-ASCII identifier ' + label, part)
        for sig, what in vs:
            part.violation(sig + ':unicode', what + '\n--- source ---\n' + text, {'kind': 'cursor1', 'text': text, 'pos': list(pos), 'ctx': 'unicode'})
    part.outcome('unicode')
    return part


def unit_file(arg):
    path, every, chunk, nchunks = arg
    part = Part()
    text = corpus.read(path)
    if text is None:
        return part
    part.count('evaluations')
    if chunk == 0:
        part.count('files')
    for sig, what, wit in check_text(text, path, os.path.basename(path), part, every, chunk, nchunks):
        part.violation(sig, what, wit)
    part.outcome(('file', path, part.counters['cursors']))
    return part


def _dispatch(u):
    return u[0](u[1])


def replay(w):
    p = Part()
    if w['kind'] == 'unicode-line':
        return [(v['sig'], v['what']) for v in unit_unicode(None).violations if v['sig'].startswith('same-line')]
    if w['kind'] == 'cursor1':
        r, vs = contract(w['text'], tuple(w['pos']), nc.FILE, 'context ' + w['ctx'], p)
        if w['ctx'] == 'import' and r is not None:
            exp = import_reference(w['text'], tuple(w['pos']), nc.FILE)
            if exp is not None and list(r[1]) != exp:
                vs = vs + [('import-proposals-differ', 'proposals differ')]
        suffix = {'import': ':import-ctx', 'unicode': ':unicode'}.get(w['ctx'], ':ctx-' + w['ctx'])
        return [(s + suffix, wh) for s, wh in vs]
    return [(s + w.get('suffix', ''), wh) for s, wh, _ in check_text(w['text'], w['fn'], w['label'], p)]


def run(ctx):
    ctx.level = 'exploration'
    sp = space(ctx.tier)
    step = 25
    units = [(unit_progs, (ctx.tier, lo, min(len(sp), lo + step))) for lo in range(0, len(sp), step)]
    units.append((unit_imports, None))
    units.append((unit_unicode, None))
    repo = sorted(corpus.repo_files(), key=os.path.getsize)
    repo = [f for f in repo if not f.endswith('umsgpack.py')]
    for i, f in enumerate(repo):
        every = 1 if (not ctx.quick or i < 6) else 25      # quick: every 25th name/attribute node of the larger files
        nchunks = max(1, os.path.getsize(f) // (3000 * every))
        for ch in range(nchunks):
            units.append((unit_file, (f, every, ch, nchunks)))
    ctx.pmap(_dispatch, ctx.shuffled(units), chunksize=1)
    c = ctx.counters
    ctx.counters['distinct_nontrivial'] = int(c['cursors'])
    ctx.coverage.update({
        'rule': 'every cursor at the end of and inside every Name(Load), Attribute.attr and import name of the generated programs and repository files, '
                'plus every expression-statement read re-rendered in %d preceding contexts; distinct_nontrivial = cursors answered' % len(CONTEXTS),
        'cursors': int(c['cursors']),
        'context_cursors': int(c['context_cursors']),
        'import_context_cursors': int(c['import_context_cursors']),
        'transparency_checks': int(c['transparency_checks']),
        'programs': int(c['programs']),
        'files': int(c['files']),
        'quick_sampling_of_large_files': 'every 25th node of repository files beyond the 6 smallest (thorough: all)' if ctx.quick else 'none',
    })
    ctx.assumptions += [
        'the unmarked reference analysis is computed on a scope extracted afresh for every cursor',
        'cursors where assist raises are counted and left to C08',
    ]
