"""Shared evaluation for C01, C02, C03: one generated program -> ground truth (all CPython executions)
versus supp's observations (lint, names_at on a fresh scope per read, location, assist)."""
import ast
import os
import json

from .common import Part, watchdog, Timeout
from . import progspace as ps
from . import features

ps.install_builtins()
import sys

from supp.linter import lint
from supp.assistant import assist, location
from supp.project import Project
from supp.util import Source, get_name_usages, np
from supp.nast import extract_scope
from supp.name import MultiName, UndefinedName, RuntimeName

# bindings made through a global / nonlocal statement: the known findings F-glob / F-nonlocal are keyed by the binding kind alone
NONLOCAL_KINDS = ('global-assign', 'nonlocal-assign')
PROJECT_DIR = os.path.join(os.path.dirname(os.path.abspath(__file__)), 'genproject')
FILE = os.path.join(PROJECT_DIR, 'x.py')
_project = None
if PROJECT_DIR not in sys.path:
    sys.path.insert(0, PROJECT_DIR)   # the generated programs import m1, m2, pk when CPython executes them


def project():
    global _project
    if _project is None:
        _project = Project([PROJECT_DIR])
    return _project


def fresh_project():
    return Project([PROJECT_DIR])


def prog_features(prog):
    return [st[1] for st in ps.walk(prog) if st[0] == 'feat']


def in_c02_domain(prog):
    """structured fragment: no break/continue/return/stray raise, callf allowed, features flagged c02"""
    for st in ps.walk(prog):
        k = st[0]
        if k in ('brk', 'cont', 'mayraise'):
            return False
        if k == 'try' and st[1] == 'nohandler':
            return False      # an exception passing through a finally is not "always caught"
        if k == 'feat' and not features.FEATURES[st[1]]['c02']:
            return False
    return True


def in_c03_domain(prog):
    if not in_c02_domain(prog):
        return False
    for st in ps.walk(prog):
        if st[0] == 'try' and st[1] != 'both':
            return False
        if st[0] == 'feat' and not features.FEATURES[st[1]]['c03']:
            return False
    return True


def supp_alts(text, site):
    """alternatives supp gives for one read when it is the ONLY query on a freshly extracted scope."""
    s = Source(text, FILE)
    extract_scope(s, project())
    nodes = [n for n in get_name_usages(s.tree) if np(n) == site.pos and n.id == site.var]
    if len(nodes) != 1:
        return 'no-node'
    node = nodes[0]
    if not hasattr(node, 'flow'):
        return 'unvisited'
    nm = node.flow.names_at(site.pos).get(site.var)
    if nm is None:
        return None
    xs = nm.alt_names if isinstance(nm, MultiName) else [nm]
    out = set()
    for x in xs:
        if isinstance(x, UndefinedName):
            out.add('U')
        elif isinstance(x, RuntimeName):
            out.add('builtin')
        else:
            out.add((tuple(x.declared_at), getattr(getattr(x, 'scope', None), 'top', None) is not None and x.filename or None))
    return out


def flatten_locs(locs):
    out = []
    for l in locs:
        if isinstance(l, list):
            out += flatten_locs(l)
        else:
            out.append(l)
    return out


def sig_clean(s):
    return str(s).replace(' ', '')


def check_program(prog, want=('C01', 'C02', 'C03'), part=None):
    """-> list of (property, signature, what).  Deterministic; used by enumeration and replay."""
    part = part or Part()
    out = []
    rp = ps.render(prog, 'plain')
    text = rp.text
    feats = prog_features(prog)
    try:
        ast.parse(text)
    except SyntaxError as e:
        raise RuntimeError('generated program does not parse: %s\n%s' % (e, text))
    d02 = in_c02_domain(prog)
    d03 = in_c03_domain(prog)
    need_strict = 'C01' in want or ('C02' in want and d02)
    need_lenient = 'C03' in want and d03
    strict = lenient = None
    if need_strict:
        strict = ps.ground_truth(ps.render(prog, 'strict').text, 'strict')
        part.count('executions', strict.nexec)
        part.count('exec_tree_nodes', strict.nodes)
    if need_lenient:
        lenient = ps.ground_truth(ps.render(prog, 'lenient').text, 'lenient')
        part.count('executions', lenient.nexec)
        part.count('exec_tree_nodes', lenient.nodes)
        if lenient.errors:
            # some execution ended in a run-time error: 'on no path' cannot be decided for this program
            part.count('c03_programs_skipped_runtime_error')
            lenient = None
            need_lenient = False
            d03 = False
    if not (need_strict or need_lenient):
        return out

    try:
        with watchdog(20):
            L = lint(project(), text, FILE)
    except Timeout:
        raise
    except Exception as e:
        part.count('lint_crashes')   # C08's business
        return out
    lintE = {}
    for x in L:
        if x[0] in ('E02', 'E42'):
            lintE[(x[2], x[3])] = x[0]
    lintW = {(x[2], x[3]): x for x in L if x[0] in ('W01', 'W02')}
    defpos = {}
    for d, s in rp.defs.items():
        defpos.setdefault(s.pos, []).append(d)

    def ctx(extra):
        return {'prog': prog, 'text': text, **extra}

    nontrivial = False
    comp_vars = {x.var for x in rp.defs.values() if x.ckind == 'comp-target'}
    for r, rs in rp.reads.items():
        part.count('reads')
        a = None
        a_done = False

        def alts():
            nonlocal a, a_done
            if not a_done:
                a = supp_alts(text, rs)
                a_done = True
            return a

        # ---------------- C01: runtime-visible => supp-visible
        if 'C01' in want and strict.reached.get(r):
            part.count('c01_reads_checked')
            kinds = sorted({rp.defs[d].ckind for d in strict.reach[r] if d in rp.defs}) or ['outer-or-builtin']
            if rs.pos in lintE:
                code = lintE[rs.pos]
                out.append(('C01', '%s:bound-by=%s:read=%s' % (code, '+'.join(kinds), rs.rclass),
                            'lint reports %s for `%s` at %s although CPython reads it successfully' % (code, rs.var, rs.pos),
                            ctx({'read': r})))
            try:
                pre, props = assist(project(), text, (rs.pos[0], rs.pos[1] + len(rs.var)), FILE)
                if rs.var not in props:
                    out.append(('C01', 'not-offered:bound-by=%s:read=%s' % ('+'.join(kinds), rs.rclass),
                                'assist at end of `%s` %s does not offer it (prefix %r, %d proposals)' % (rs.var, rs.pos, pre, len(props)),
                                ctx({'read': r})))
            except Exception:
                part.count('assist_crashes')   # C08's business
        # ---------------- C02: the definition actually read is reported
        if 'C02' in want and d02 and strict.reach.get(r):
            same = [d for d in strict.reach[r] if d in rp.defs and rp.defs[d].scope == rs.scope]
            if same:
                part.count('c02_pairs_checked', len(same))
                al = alts()
                apos = {x[0] for x in al if isinstance(x, tuple)} if isinstance(al, set) else set()
                G = None
                for d in same:
                    ds = rp.defs[d]
                    if ds.pos not in apos:
                        out.append(('C02', 'missing-alt:def=%s' % ds.ckind if ds.ckind in NONLOCAL_KINDS else 'missing-alt:def=%s:read=%s' % (ds.ckind, rs.rclass),
                                    'read `%s` at %s obtains the binding at %s (%s) in some execution, supp alternatives: %s' % (
                                        rs.var, rs.pos, ds.pos, ds.ckind, sorted(map(str, al)) if isinstance(al, set) else al),
                                    ctx({'read': r, 'def': d})))
                    if ds.pos in lintW:
                        out.append(('C02', 'false-unused:%s:def=%s' % (lintW[ds.pos][0], ds.ckind),
                                    'lint: %s at %s although the read at %s obtains that binding' % (lintW[ds.pos][1], ds.pos, rs.pos),
                                    ctx({'read': r, 'def': d})))
                    if G is None:
                        try:
                            G = {tuple(l['loc']) for l in flatten_locs(location(project(), text, (rs.pos[0], rs.pos[1] + len(rs.var)), FILE))
                                 if l.get('file') in (FILE, None)}
                        except Exception:
                            part.count('location_crashes')
                            G = 'crash'
                    if G != 'crash' and ds.pos not in G:
                        out.append(('C02', 'goto-missing:def=%s' % ds.ckind if ds.ckind in NONLOCAL_KINDS else 'goto-missing:def=%s:read=%s' % (ds.ckind, rs.rclass),
                                    'location() from `%s` at %s lists %s, not the binding at %s that an execution reads' % (
                                        rs.var, rs.pos, sorted(G), ds.pos),
                                    ctx({'read': r, 'def': d})))
        # ---------------- C03: precision
        if 'C03' in want and d03 and lenient.reached.get(r):
            reach = lenient.reach.get(r, set())
            # only reads all of whose possible bindings live in the read's own scope can be judged exactly
            local = all(d in rp.defs and rp.defs[d].scope == rs.scope for d in reach)
            in_class = isinstance(rs.scope, tuple) and str(rs.scope[-1]).startswith('K')
            # C03 excludes reads of comprehension variables outside their comprehension
            comp_leak = rs.var in comp_vars and not (isinstance(rs.scope, tuple) and str(rs.scope[-1]).startswith('c'))
            if local and not in_class and not comp_leak and not handler_name_escapes(prog, rp):
                al = alts()
                part.count('c03_reads_checked')
                if len(reach) + bool(lenient.unbound.get(r)) > 1:
                    nontrivial = True
                if isinstance(al, set):
                    scope_defs = {s.pos for s in rp.defs.values() if s.scope == rs.scope}
                    reachpos = {rp.defs[d].pos for d in reach}
                    outer_possible = rs.scope != 0 and not any(s.var == rs.var and s.scope == rs.scope for s in rp.defs.values())
                    if not outer_possible:
                        for x in al:
                            if isinstance(x, tuple) and x[0] in scope_defs and x[0] not in reachpos:
                                dsite = rp.defs[defpos[x[0]][0]]
                                after_ret = ':function-with-return' if scope_has_return(prog, rs.scope, rp) else ''
                                out.append(('C03', 'phantom:function-with-return' if after_ret else 'phantom:def=%s:read=%s' % (dsite.ckind, rs.rclass),
                                            'supp associates the binding at %s with the read `%s` at %s but no execution path delivers it (reaching sites: %s)' % (
                                                x[0], rs.var, rs.pos, sorted(reachpos)),
                                            ctx({'read': r})))
                        u_supp = 'U' in al
                        u_true = bool(lenient.unbound.get(r))
                        if reach and u_supp != u_true:
                            out.append(('C03', 'possibly-undefined:supp-only:function-with-return' if (u_supp and scope_has_return(prog, rs.scope, rp))
                                        else 'possibly-undefined:%s:read=%s' % ('supp-only' if u_supp else 'missed', rs.rclass),
                                        'read `%s` at %s: supp marks possibly-undefined=%s, some path reaches it unbound=%s' % (rs.var, rs.pos, u_supp, u_true),
                                        ctx({'read': r})))
                declared_global = isinstance(rs.scope, tuple) and str(rs.scope[-1]).startswith('G')
                module_binds = any(x.var == rs.var and x.scope == 0 for x in rp.defs.values())
                if not reach and lenient.unbound.get(r) and (rs.scope == 0 or (declared_global and not module_binds)) and not hasattr(__import__('builtins'), rs.var):
                    if lintE.get(rs.pos) != 'E02':
                        out.append(('C03', 'never-bound-not-flagged:read=%s' % rs.rclass,
                                    '`%s` at %s is unbound on every path and not a builtin, lint reports %r there' % (rs.var, rs.pos, lintE.get(rs.pos)),
                                    ctx({'read': r})))
        if strict is not None and len(strict.reach.get(r, ())) > 1:
            nontrivial = True
    if nontrivial:
        part.count('distinct_nontrivial')
    return out


def scope_has_return(prog, scope, rp):
    """does the function whose def site is ``scope`` contain a mid-block return?"""
    if not isinstance(scope, int) or scope == 0:
        return False
    for st in ps.walk(prog):
        if st[0] == 'def' and any(x[0] == 'ret' for x in ps.walk(st[1])):
            return True
    return False


def handler_name_escapes(prog, rp):
    """C03 excludes programs that read an except-clause name outside its handler body."""
    hvars = {s.var: d for d, s in rp.defs.items() if s.ckind == 'except-name'}
    if not hvars:
        return False
    for r, rs in rp.reads.items():
        if rs.var in hvars and not rs.in_handler:
            return True
    return False


def witness(prog):
    return {'kind': 'program', 'prog': json.loads(json.dumps(prog))}


def to_tuple(x):
    if isinstance(x, list):
        return tuple(to_tuple(e) for e in x)
    return x


def repro_py(text, entry, pos=None):
    if entry == 'lint':
        return ("from supp.linter import lint\nfrom supp.project import Project\n"
                "print(lint(Project(['.']), %r, 'x.py'))\n" % text)
    return ("from supp.assistant import %s\nfrom supp.project import Project\n"
            "print(%s(Project(['.']), %r, %r, 'x.py'))\n" % (entry, entry, text, pos))
