"""C03 - no phantom definitions, exact possibly-undefined, never-bound flagged."""
from .names_run import run_names, replay_names


def run(ctx):
    run_names(ctx, 'C03')


def replay(w):
    return replay_names(w, 'C03')
