"""C07 - module resolution agrees with Python's import system.

E3: all directory trees within the bounds over two source roots (both orders): every directory a
regular package, modules {vm, vn}, packages {vp, vq}, optionally a top-level module vp.py/vq.py in
the other root; per tree every dotted name up to depth+1 components over {vp, vq, vm, vn, zz}, every
relative specifier (level 1..depth+2, with and without a tail) from every file, the listing of every
package; plus a fixed list of stdlib source / package / extension / builtin names.
Reference: importlib.machinery.PathFinder.find_spec descended component by component over
(roots + sys.path) - no module is executed -, importlib.util.resolve_name, pkgutil.iter_modules.
"""
import os
import sys
import shutil
import tempfile
import itertools
import importlib
import importlib.util
import pkgutil
from importlib.machinery import PathFinder

from .common import Part

from supp.project import Project
from supp.assistant import assist
from supp.module import SourceModule, ImportedModule

MODS = [(), ('vm',), ('vm', 'vn')]
PKGS = ('vp', 'vq')
ALPHA = ('vp', 'vq', 'vm', 'vn', 'zz')
STDLIB_NAMES = ['os', 'os.path', 'json', 'json.decoder', 'json.nosuch', 'email.mime.text', 'xml.dom.minidom', 'collections.abc', 'concurrent.futures',
                'math', 'zlib', '_bisect', '_json', 'itertools', 'sys', 'builtins', 'nonexistent_zz', 'os.nosuch', 'string', 'unittest.mock', 'importlib.machinery',
                'encodings.utf_8', 'distutils_nosuch.x', 'ctypes', 'sqlite3.dbapi2', 'multiprocessing.connection',
                # compiled into the interpreter and (mostly) not imported by anything the checker loads
                'gc', 'pwd', 'faulthandler', '_tracemalloc', '_locale', 'atexit', 'xxsubtype', '_symtable']


def contents(depth):
    """package contents: (modules tuple, ((pkgname, contents), ...))"""
    if depth == 0:
        return [(m, ()) for m in MODS]
    sub = contents(depth - 1)
    out = []
    for m in MODS:
        for ch in itertools.product([None] + sub, repeat=len(PKGS)):
            out.append((m, tuple((p, c) for p, c in zip(PKGS, ch) if c is not None)))
    return out


def materialise(root, cont, top_modules=()):
    files = []

    def rec(d, c, pkg):
        os.makedirs(d, exist_ok=True)
        if pkg is not None:
            f = os.path.join(d, '__init__.py')
            open(f, 'w').close()
            files.append((f, pkg))
        for m in c[0]:
            f = os.path.join(d, m + '.py')
            open(f, 'w').close()
            files.append((f, pkg))
        for name, sub in c[1]:
            rec(os.path.join(d, name), sub, (pkg + '.' + name) if pkg else name)
    rec(root, cont, None)
    for m in top_modules:
        # 'vp' -> vp.py;  'vp|.so' / 'vp|.pyc' -> an (empty) extension module / sourceless bytecode file of that name:
        # importlib finds it by name and stops there, it is never loaded
        if '|' in m:
            m, kind = m.split('|')
            suf = importlib.machinery.EXTENSION_SUFFIXES[0] if kind == '.so' else kind
            open(os.path.join(root, m + suf), 'w').close()
            continue
        f = os.path.join(root, m + '.py')
        open(f, 'w').close()
        files.append((f, None))
    return files


def add_fake_extensions(root, cont):
    """empty files with extension-module names (ABI-tagged and plain) in every package of the tree: importlib can
    find and enumerate them without loading; they are compared for LISTINGS only (loading an empty .so fails)"""
    import importlib.machinery as mach
    sufs = mach.EXTENSION_SUFFIXES
    made = []

    def rec(d, c, pkg):
        if pkg is not None:
            for i, suf in enumerate(sufs):
                f = os.path.join(d, 've%d%s' % (i, suf))
                open(f, 'w').close()
                made.append((pkg, 've%d' % i))
            if 'vm' in c[0]:
                # an extension module next to a source module of the same name: importlib prefers the extension
                open(os.path.join(d, 'vm' + sufs[0]), 'w').close()
        for name, sub in c[1]:
            rec(os.path.join(d, name), sub, (pkg + '.' + name) if pkg else name)
    rec(root, cont, None)
    return made


def ref_find(name, roots):
    """-> spec or None, descending component by component (no module is executed)"""
    path = list(roots) + sys.path
    parts = name.split('.')
    locs = None
    spec = None
    for i in range(len(parts)):
        full = '.'.join(parts[:i + 1])
        try:
            spec = PathFinder.find_spec(full, path if i == 0 else locs)
        except Exception:
            spec = None
        if spec is None:
            return None
        locs = spec.submodule_search_locations
        if i < len(parts) - 1 and locs is None:
            return None
    return spec


def unloadable(name, roots):
    """importlib resolves the name to one of the empty .so / .pyc files of the tree: the name itself cannot be
    compared (supp would have to load it), everything BELOW it can (it is not a package: nothing is found)"""
    spec = ref_find(name, roots)
    return spec is not None and spec.origin and not spec.origin.endswith('.py') and any(spec.origin.startswith(r) for r in roots)


def expected_origin(name, roots):
    if name in sys.builtin_module_names:
        return ('loaded-only', name)       # BuiltinImporter comes first on sys.meta_path: no file can shadow these
    spec = ref_find(name, roots)
    if spec is not None:
        if spec.origin in (None, 'built-in', 'frozen'):
            return ('loaded-only', name)
        return ('file', spec.origin)
    if name in sys.modules and loaded_top_is_the_one_found(name, roots):
        # a submodule its parent creates at import time (os.path): importable although no file search finds it
        m = sys.modules[name]
        return ('loaded', getattr(m, '__file__', None))
    return ('none', None)


def loaded_top_is_the_one_found(name, roots):
    """sys.modules of THIS process says something about `name` only if the top-level module loaded here is the very file
    the roots lead to; a project file shadowing a stdlib package makes the loaded children unreachable"""
    top = name.split('.')[0]
    loaded = getattr(sys.modules.get(top), '__file__', None)
    if not loaded:
        return True        # builtin / frozen: always wins
    spec = ref_find(top, roots)
    return spec is not None and spec.origin is not None and os.path.realpath(spec.origin) == os.path.realpath(loaded)


def supp_origin(P, name):
    try:
        m = P.get_module(name)
    except ImportError:
        return ('none', None)
    except Exception as e:
        return ('exc', '%s: %s' % (type(e).__name__, str(e)[:60]))
    if isinstance(m, SourceModule):
        return ('file', m.filename)
    if isinstance(m, ImportedModule):
        return ('loaded', getattr(m.module, '__file__', None))
    return ('?', repr(m))


def compare_name(P, name, roots, tag):
    exp = expected_origin(name, roots)
    got = supp_origin(P, name)
    if exp[0] == 'loaded-only':
        ok = got[0] == 'loaded' or (got[0] == 'file')
        return None if ok else ('resolution:%s:importlib=builtin-or-frozen:supp=%s' % (tag, got[0]), exp, got)
    if exp[0] == 'none':
        return None if got[0] == 'none' else ('resolution:%s:importlib=not-found:supp=%s' % (tag, got[0]), exp, got)
    if got[0] == 'none':
        return ('resolution:%s:importlib=%s:supp=ImportError' % (tag, exp[0]), exp, got)
    if got[0] == 'exc':
        return ('resolution:%s:supp-raises' % tag, exp, got)
    a, b = exp[1], got[1]
    if a and b and os.path.realpath(a) == os.path.realpath(b):
        return None
    if exp[0] == 'loaded' and got[0] == 'loaded' and a == b:
        return None
    return ('resolution:%s:different-file' % tag, exp, got)


def package_of(file_pkg, filename):
    return file_pkg


def ref_resolve(rel, pkg):
    if not pkg:
        return 'ImportError'
    try:
        return importlib.util.resolve_name(rel, pkg)
    except ImportError:
        return 'ImportError'


def supp_resolve(P, rel, filename):
    try:
        return P.norm_package(rel, filename)
    except ImportError:
        return 'ImportError'
    except Exception as e:
        return 'EXC:%s' % type(e).__name__


def check_tree(workdir, t1, t2, top2, order, part, extensions=False, root_init=False):
    """one pair of roots in one order -> list of (sig, what)"""
    out = []
    seen = set()

    def add(sig, what):
        if sig not in seen:
            seen.add(sig)
            out.append((sig, what))

    shutil.rmtree(workdir, ignore_errors=True)
    r1, r2 = os.path.join(workdir, 'r1'), os.path.join(workdir, 'r2')
    f1 = materialise(r1, t1)
    f2 = materialise(r2, t2, top2)
    if root_init:
        # a source root that holds an __init__.py itself (tests/, a package directory used as root): module names still start there
        open(os.path.join(r1, '__init__.py'), 'w').close()
    if extensions:
        add_fake_extensions(r1, t1)
    importlib.invalidate_caches()
    roots = [r1, r2] if order == 0 else [r2, r1]
    P = Project(list(roots))
    part.count('trees')
    depth = 4 if max(_depth(t1), _depth(t2)) >= 3 else 3
    # which top-level names exist in both roots (shadowing situations)
    tops = [set(n.split('.')[0] for n in os.listdir(r)) for r in (r1, r2)]
    shadow = bool(tops[0] & tops[1])
    # ---- absolute names
    names = []
    for n in range(1, depth + 1):
        for parts in itertools.product(ALPHA if n <= 3 else ('vp', 'vq', 'vm'), repeat=n):
            names.append('.'.join(parts))
    for name in names:
        if unloadable(name, roots):
            # the binary file cannot be loaded; but supp must not resolve the name to some OTHER file
            part.count('names_of_fake_binary_modules')
            got = supp_origin(P, name)
            if got[0] == 'file':
                add('resolution:tree:importlib=binary-module:supp=source-file', 'name %r with roots %s: importlib selects %s, supp analyses %s' % (
                    name, [os.path.basename(x) for x in roots], os.path.basename(ref_find(name, roots).origin), got[1].replace(workdir, '')))
            continue
        part.count('names_resolved')
        tag = 'shadowed-top-name' if (shadow and name.split('.')[0] in (tops[0] & tops[1])) else 'tree'
        r = compare_name(P, name, roots, tag)
        if r:
            add(r[0], 'name %r with roots %s: importlib %s, supp %s' % (name, [os.path.basename(x) for x in roots], strip(r[1], workdir), strip(r[2], workdir)))
    if extensions:
        # a fake extension must not make resolution of the ordinary names disagree; its own name is not resolved (cannot be loaded)
        pass
    # ---- relative specifiers from every file
    for files in (f1, f2):
        for filename, pkg in files:
            base = os.path.basename(filename)
            # __package__ of the module in that file
            if base == '__init__.py':
                package = pkg
            else:
                package = pkg
            for level in range(1, depth + 2):
                for tail in ('', 'vm', 'zz.yy'):
                    rel = '.' * level + tail
                    part.count('relative_names')
                    exp = ref_resolve(rel, package)
                    got = supp_resolve(P, rel, filename)
                    if exp != got:
                        kind = 'beyond-top' if exp == 'ImportError' else ('supp-fails' if got == 'ImportError' or got.startswith('EXC') else 'different-name')
                        add('relative:%s:%s' % (kind, 'init' if base == '__init__.py' else 'module'),
                            'relative %r from %s (package %r): importlib.util.resolve_name -> %s, supp -> %s' % (rel, filename.replace(workdir, ''), package, exp, got))
    # ---- completion of the module name in `from <dots><letters>|`: the children of the package the dots name from that file
    for files in (f1, f2):
        for filename, pkg in files:
            for level in range(0, depth + 2):
                for head in ('', 'vp.', 'vp.vq.'):
                    if not level and not head:
                        continue
                    for typed in ('', 'v', 'vm'):
                        spec_txt = '.' * level + head + typed
                        text = 'from ' + spec_txt
                        part.count('from_completions')
                        try:
                            got = assist(P, text, (1, len(text)), filename)
                        except Exception as e:
                            part.count('assist_crashes')
                            continue
                        base = ('.' * level + head).rstrip('.') if head else '.' * level
                        target = ref_resolve(base, pkg) if level else base
                        if target == 'ImportError':
                            exp = []
                        else:
                            spec = ref_find(target, roots)
                            if spec is None or spec.submodule_search_locations is None:
                                exp = None         # not a package: covered by the listing checks below
                            else:
                                exp = sorted(P.list_packages(target))
                        if exp is None:
                            continue
                        if got[0] != typed or list(got[1]) != exp:
                            add('from-completion:%s' % ('relative-level-%d' % min(level, 3) if level else 'absolute'),
                                'assist at the end of %r in %s (package %r) gives prefix %r and %s; the name left of the cursor is %r and package %r has children %s' % (
                                    text, filename.replace(workdir, ''), pkg, got[0], list(got[1])[:8], typed, target, exp[:8]))
    # ---- listings
    pkgs = sorted({pkg for _f, pkg in f1 + f2 if pkg})
    for pkg in pkgs:
        spec = ref_find(pkg, roots)
        if spec is None or spec.submodule_search_locations is None:
            # not a package for importlib (shadowed by a module of an earlier root): nothing below it can be imported
            part.count('listings_of_non_packages')
            try:
                got = set(P.list_packages(pkg))
            except Exception as e:
                add('listing:supp-raises', 'list_packages(%r) raises %r' % (pkg, e))
                continue
            extra = {g for g in got if (pkg + '.' + g) not in sys.modules}
            if extra:
                add('listing:shadowed-top-name:children-of-non-package', 'list_packages(%r) proposes %s, but %r is %s for importlib (roots %s)' % (
                    pkg, sorted(extra), pkg, 'not importable' if spec is None else 'the module ' + os.path.basename(spec.origin or '?'), [os.path.basename(x) for x in roots]))
            continue
        part.count('listings')
        exp = {m.name for m in pkgutil.iter_modules(spec.submodule_search_locations)}
        try:
            got = set(P.list_packages(pkg))
        except Exception as e:
            add('listing:supp-raises', 'list_packages(%r) raises %r' % (pkg, e))
            continue
        missing = exp - got
        extra = {g for g in got - exp if ref_find(pkg + '.' + g, roots) is None and (pkg + '.' + g) not in sys.modules}
        tag = 'shadowed-top-name' if (shadow and pkg.split('.')[0] in (tops[0] & tops[1])) else 'tree'
        if missing:
            add('listing:%s:missing-children' % tag, 'list_packages(%r) lacks %s that importlib can enumerate' % (pkg, sorted(missing)))
        if extra:
            add('listing:%s:children-not-importable' % tag, 'list_packages(%r) proposes %s, neither importable nor loaded (roots %s)' % (
                pkg, sorted(extra), [os.path.basename(x) for x in roots]))
    return out


def _depth(c):
    return 1 + max([_depth(sub) for _n, sub in c[1]] or [0])


def strip(x, workdir):
    return (x[0], x[1].replace(workdir, '') if isinstance(x[1], str) else x[1])


SHADOW_FILES = {'json.py': 'x = 1\n', 'email/__init__.py': '', 'email/own.py': '', 'xml/__init__.py': '', 'xml/dom.py': ''}
SHADOW_NAMES = ['json', 'json.decoder', 'json.nosuch', 'email', 'email.own', 'email.mime', 'email.mime.text', 'email.message', 'xml.dom', 'xml.dom.minidom', 'xml.etree',
                'os', 'os.path', 'collections.abc']


def check_shadowed_stdlib(part):
    """a project module / package with the name of a stdlib package whose submodules are loaded in this process:
    what is loaded here belongs to the OTHER json / email / xml and must not be offered"""
    import json.decoder, email.mime.text, email.message, xml.dom.minidom, xml.etree.ElementTree  # noqa: loaded on purpose
    out = []
    workdir = tempfile.mkdtemp(prefix='c07h_')
    try:
        for rel, content in SHADOW_FILES.items():
            f = os.path.join(workdir, rel)
            os.makedirs(os.path.dirname(f), exist_ok=True)
            open(f, 'w').write(content)
        importlib.invalidate_caches()
        roots = [workdir]
        P = Project(roots)
        for name in SHADOW_NAMES:
            part.count('names_resolved')
            r = compare_name(P, name, roots, 'shadowed-stdlib')
            if r:
                out.append((r[0], 'name %r with a project that has %s: importlib %s, supp %s' % (name, sorted(SHADOW_FILES), strip(r[1], workdir), strip(r[2], workdir))))
        for pkg in ('json', 'email', 'xml', 'xml.dom'):
            part.count('listings')
            spec = ref_find(pkg, roots)
            exp = {m.name for m in pkgutil.iter_modules(spec.submodule_search_locations)} if spec is not None and spec.submodule_search_locations else set()
            got = set(P.list_packages(pkg))
            extra = {g for g in got - exp if expected_origin(pkg + '.' + g, roots)[0] == 'none'}
            if exp - got:
                out.append(('listing:shadowed-stdlib:missing-children', 'list_packages(%r) lacks %s' % (pkg, sorted(exp - got))))
            if extra:
                out.append(('listing:shadowed-stdlib:children-not-importable', 'list_packages(%r) proposes %s: loaded in this process, but as children of the stdlib package the project shadows' % (pkg, sorted(extra))))
    finally:
        shutil.rmtree(workdir, ignore_errors=True)
    return out


def check_stdlib(part):
    out = []
    workdir = tempfile.mkdtemp(prefix='c07s_')
    try:
        roots = [workdir]
        P = Project(roots)
        for name in STDLIB_NAMES:
            part.count('names_resolved')
            part.count('stdlib_names')
            r = compare_name(P, name, roots, 'stdlib')
            if r:
                out.append((r[0] + ':' + name.split('.')[0], 'name %r: importlib %s, supp %s' % (name, r[1], r[2])))
        for pkg in ('json', 'email', 'concurrent', 'xml', 'importlib'):
            spec = ref_find(pkg, roots)
            exp = {m.name for m in pkgutil.iter_modules(spec.submodule_search_locations)}
            got = set(P.list_packages(pkg))
            part.count('listings')
            if exp - got:
                out.append(('listing:stdlib:missing-children', 'list_packages(%r) lacks %s' % (pkg, sorted(exp - got))))
            extra = {g for g in got - exp if ref_find(pkg + '.' + g, roots) is None and (pkg + '.' + g) not in sys.modules}
            if extra:
                out.append(('listing:stdlib:children-not-importable', 'list_packages(%r) proposes %s' % (pkg, sorted(extra))))
    finally:
        shutil.rmtree(workdir, ignore_errors=True)
    return out


# ------------------------------------------------------------------ enumeration

def tree_pairs(tier):
    d1 = contents(1)
    small = contents(0) + [c for c in d1 if sum(1 for _ in c[1]) <= 1][:12]
    if tier == 'quick':
        roots1 = d1
        roots2 = [c for i, c in enumerate(d1) if i % 6 == 0] + contents(0)
    else:
        roots1 = contents(2)[::3] + d1
        roots2 = d1
    for t1 in roots1:
        for t2 in roots2:
            yield t1, t2, ()
    # the same package CHAIN in both roots with different modules at every level (shadowing at depth 2 and 3)
    def chain(mods):
        c = (mods[-1], ())
        for i in range(len(mods) - 2, -1, -1):
            c = (mods[i], ((PKGS[i % 2], c),))
        return c
    small = [(), ('vm',)]
    for d in (2, 3, 4):
        combos = list(itertools.product(small, repeat=d))
        for m1 in combos:
            for m2 in combos:
                if m1 != m2 and (d < 4 or tier != 'quick'):
                    yield chain(m1), chain(m2), ()
    # a top-level MODULE in root 2 with the name of a top-level PACKAGE of root 1 (and vice versa)
    for t1 in d1:
        have = {p for p, _ in t1[1]}
        for p in have:
            yield t1, ((), ()), (p,)
            yield t1, (('vm',), ()), (p,)
            # ... or a compiled extension / sourceless bytecode file of that name (not a source, still a module)
            yield t1, ((), ()), (p + '|.so',)
            yield t1, (('vm',), ()), (p + '|.pyc',)


_PAIRS = {}


def pairs(tier):
    if tier not in _PAIRS:
        _PAIRS[tier] = list(tree_pairs(tier))
    return _PAIRS[tier]


def unit(arg):
    tier, lo, hi = arg
    part = Part()
    workdir = tempfile.mkdtemp(prefix='c07_')
    try:
        for i, (t1, t2, top2) in enumerate(pairs(tier)[lo:hi]):
            for order in (0, 1):
                part.count('evaluations')
                wd = os.path.join(workdir, 't%d_%d' % (lo + i, order))
                ext = (lo + i) % 7 == 0
                rinit = (lo + i) % 5 == 1
                for sig, what in check_tree(wd, t1, t2, top2, order, part, extensions=ext, root_init=rinit):
                    part.violation(sig, what + '\n tree: root r1=%r root r2=%r extra top modules in r2=%r order=%s' % (t1, t2, top2, 'r1,r2' if order == 0 else 'r2,r1'),
                                   {'kind': 'tree', 't1': t1, 't2': t2, 'top2': list(top2), 'order': order, 'ext': ext, 'root_init': rinit})
                shutil.rmtree(wd, ignore_errors=True)
            if (lo + i) % 400 == 3:
                part.sample({'root1': repr(t1), 'root2': repr(t2), 'top2': list(top2)}, limit=2)
    finally:
        shutil.rmtree(workdir, ignore_errors=True)
    part.outcome(('trees', lo))
    return part


def unit_stdlib(_):
    part = Part()
    part.count('evaluations')
    for sig, what in check_stdlib(part):
        part.violation(sig, what, {'kind': 'stdlib'})
    part.count('evaluations')
    for sig, what in check_shadowed_stdlib(part):
        part.violation(sig, what, {'kind': 'shadowed-stdlib'})
    part.outcome('stdlib')
    return part


def to_t(x):
    if isinstance(x, list):
        return tuple(to_t(e) for e in x)
    return x


def replay(w):
    part = Part()
    if w['kind'] == 'stdlib':
        return check_stdlib(part)
    if w['kind'] == 'shadowed-stdlib':
        return check_shadowed_stdlib(part)
    wd = tempfile.mkdtemp(prefix='c07r_')
    try:
        return check_tree(os.path.join(wd, 't'), to_t(w['t1']), to_t(w['t2']), tuple(w['top2']), w['order'], part, extensions=w.get('ext', False), root_init=w.get('root_init', False))
    finally:
        shutil.rmtree(wd, ignore_errors=True)


def _dispatch(u):
    return u[0](u[1])


def run(ctx):
    ctx.level = 'exploration'
    n = len(pairs(ctx.tier))
    step = 25
    units = [(unit, (ctx.tier, lo, min(n, lo + step))) for lo in range(0, n, step)]
    units.append((unit_stdlib, None))
    ctx.pmap(_dispatch, ctx.shuffled(units), chunksize=1)
    c = ctx.counters
    ctx.counters['distinct_nontrivial'] = int(c['trees'])
    ctx.coverage.update({
        'rule': 'every pair of root contents of the plan (root1 x root2, both orders) materialised in a unique directory; per tree all dotted names up to 3 components over '
                '{vp,vq,vm,vn,zz}, all relative specifiers level 1..4 x 3 tails from every file, listing of every package; distinct_nontrivial = trees (root pair x order)',
        'tree_pairs': n,
        'trees': int(c['trees']),
        'names_resolved': int(c['names_resolved']),
        'relative_names': int(c['relative_names']),
        'listings': int(c['listings']),
        'stdlib_names': int(c['stdlib_names']),
    })
    ctx.assumptions += [
        'importlib of CPython 3.12 is the reference; PathFinder.find_spec is descended component by component, no module is executed; importlib.invalidate_caches() and a unique directory per tree',
        'no PEP 420 namespace packages and no module file next to a package directory of the same name in one directory (as the property says)',
        'extension modules cannot be built offline: extension/builtin/frozen names come from the installed interpreter (fixed list)',
    ]
