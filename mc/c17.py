"""C17 - deterministic output.

E1 over hash-order nondeterminism: every ``set`` constructed inside a supp module is a ChoiceSet
whose iteration order is a choice point answered by the explorer.
  * sets of <= 4 non-string elements (rows of alternative definitions): ALL n! permutations;
  * larger sets and sets of strings: identity / reversed / rotated-by-one / first-two-swapped.
A deviation = one set iterated in a non-canonical order; deviation bound 1 (quick) / 2 (thorough):
every single set in every order with all others canonical, then every pair.
Oracle: one distinct output per request, and alternatives listed in source order.

Real-process grid (deciding as well): the same requests in fresh interpreters, ASLR off
(setarch -R), PYTHONHASHSEED in {0,1,2} x {0,10,1000,5000} pre-allocated objects: all outputs
equal, and equal to the output the explorer saw.
"""
import os
import sys
import json
import itertools
import subprocess
import builtins

from .common import Part, HarnessError, VERIF
from . import e1
from . import progspace as ps
from . import namecheck as nc

import supp
import supp.name, supp.scope, supp.evaluator, supp.assistant, supp.linter, supp.project, supp.module, supp.nast, supp.util  # noqa
from supp.assistant import assist, location
from supp.linter import lint
from supp.project import Project

_set = builtins.set
CH = None   # the chooser of the current execution (None = canonical order, no choice points)


_ORD = {}      # id -> (first-seen ordinal, strong reference) within the current execution
_KEEP = []


def _ordinal(x):
    i = id(x)
    if i not in _ORD:
        _ORD[i] = len(_ORD)
        _KEEP.append(x)       # keep it alive: no id reuse within one execution
    return _ORD[i]


def _reset_ordinals():
    _ORD.clear()
    del _KEEP[:]


def _key(x):
    if isinstance(x, str):
        return (0, str(x), '', '', 0)
    pos = getattr(x, 'declared_at', None) or getattr(x, 'location', None) or (0, 0)
    try:
        pos = tuple(pos)
    except TypeError:
        pos = (0, 0)
    return (1, pos, str(getattr(x, 'name', '')), type(x).__name__, _ordinal(x))


class ChoiceSet(_set):
    """a set whose iteration order is decided by the explorer"""

    # elements get their canonical ordinal at INSERTION time (program order is deterministic,
    # the native iteration order of a set of id-hashed objects is not)
    def __init__(self, it=()):
        _set.__init__(self)
        for x in it:
            self.add(x)

    def add(self, x):
        if not isinstance(x, str):
            _ordinal(x)
        _set.add(self, x)

    def update(self, *its):
        for it in its:
            for x in it:
                self.add(x)

    def __iter__(self):
        items = list(_set.__iter__(self))
        if len(items) < 2:
            return iter(items)
        try:
            items.sort(key=_key)
        except TypeError:
            items.sort(key=lambda x: repr(_key(x)))
        if CH is None:
            return iter(items)
        n = len(items)
        if n <= 4 and not all(isinstance(x, str) for x in items):
            perms = list(itertools.permutations(range(n)))
            c = CH.choose(len(perms), 1, 'perm%d' % n)
            return iter([items[i] for i in perms[c]])
        c = CH.choose(4, 1, 'order%d' % n)
        if c == 1:
            items.reverse()
        elif c == 2:
            items = items[1:] + items[:1]
        elif c == 3:
            items[0], items[1] = items[1], items[0]
        return iter(items)

    # operations that build new sets must keep the type, or their iteration escapes the explorer
    def _wrap(name):
        def f(self, *a):
            return ChoiceSet(getattr(_set, name)(self, *a))
        f.__name__ = name
        return f
    for _n in ('union', 'intersection', 'difference', 'symmetric_difference', 'copy',
               '__or__', '__and__', '__sub__', '__xor__', '__ror__', '__rand__', '__rsub__', '__rxor__'):
        locals()[_n] = _wrap(_n)
    del _wrap, _n


def install():
    n = 0
    for name, mod in list(sys.modules.items()):
        if (name == 'supp' or name.startswith('supp.')) and mod is not None and name != 'supp.umsgpack':
            mod.set = ChoiceSet
            n += 1
    return n


def uninstall():
    for name, mod in list(sys.modules.items()):
        if (name == 'supp' or name.startswith('supp.')) and mod is not None and hasattr(mod, 'set') and mod.__dict__.get('set') is ChoiceSet:
            del mod.set


# ------------------------------------------------------------------ requests

HAND = [
    ('three-way', 'import sys\nif sys:\n    x = 1\nelif 1:\n    x = 2\nelse:\n    def x(): pass\nx\n', [(8, 1)]),
    ('four-way-loop', 'x = 0\nfor i in range(3):\n    if i:\n        x = 1\n    elif x:\n        import os as x\n    else:\n        x = 3\nx\n', [(9, 1)]),
    ('try-alts', 'try:\n    import json as j\nexcept ImportError:\n    j = None\nelse:\n    k = 1\nj\n', [(7, 1)]),
    ('star-conditional', 'from m2 import *\nz2\nx2\n', [(2, 2), (3, 2)]),
    ('from-conditional', 'from m2 import z2\nz2\n', [(2, 2)]),
    ('module-attr', 'import m2\nm2.z2\n', [(2, 5), (2, 3)]),
    ('composite-attr', 'class A:\n    def m(self): pass\n    p = 1\nclass B:\n    def m(self): pass\n    q = 2\nif 1:\n    o = A()\nelse:\n    o = B()\no.m\n', [(11, 3), (11, 2)]),
    ('class-attr-branches', 'class A:\n    if 1:\n        v = 1\n    else:\n        v = 2\n    w = v\nA.v\nA().w\n', [(7, 3), (8, 5)]),
    ('self-assign-multi', 'class A:\n    def a(self):\n        self.t = 1\n    def b(self):\n        self.t = 2\n        self.u = 3\n    def c(self):\n        self.t\n', [(8, 14), (8, 13)]),
    ('four-values', 'class A:\n    def run(self): pass\nclass B:\n    def run(self): pass\nclass C:\n    def run(self): pass\nclass D:\n    def run(self): pass\nif 1:\n    x = A()\nelif 2:\n    x = B()\nelif 3:\n    x = C()\nelse:\n    x = D()\nx.run\n', [(17, 5), (17, 2)]),
    ('elif-no-else', 'if 1:\n    x = 1\nelif 2:\n    x = 2\nx\nif 3:\n    if 4:\n        y = 1\n    elif 5:\n        y = 2\nelse:\n    if 6:\n        y = 3\ny\n', [(5, 1), (14, 1)]),
    ('import-conditional-elif', 'from m3 import backend\nbackend\nimport m3\nm3.backend\n', [(2, 7), (4, 10)]),
    ('case-variants', 'error = 1\nError = 2\nERROR = 3\nmatch = 4\nMatch = 5\nclass K:\n    Value = 1\n    value = 2\n    VALUE = 3\nK.value\n', [(10, 2), (10, 7)]),
    ('case-variants-names', 'error = 1\nError = 2\nERROR = 3\nmatch = 4\nMatch = 5\ner\n', [(6, 2), (6, 0)]),
    ('conditional-base', 'import os\nclass A:\n    def run(self): pass\n    a = 1\nclass B:\n    def run(self): pass\n    b = 2\nif os:\n    Base = A\nelse:\n    Base = B\nclass Service(Base):\n    def go(self):\n        self.run\nService().run\n', [(14, 16), (15, 13), (15, 10)]),
    ('conditional-class-def', 'import os\nif os:\n    class C:\n        def m(self): pass\nelse:\n    class C:\n        def m(self): pass\nC().m\nC.m\n', [(8, 5), (9, 3)]),
    ('func-alts', 'if 1:\n    def f(): return 1\nelse:\n    def f(): return ""\nr = f()\nr\nf\n', [(6, 1), (7, 1)]),
    ('nested-multi', 'if 1:\n    a = 1\nelse:\n    a = 2\nif 2:\n    b = a\nelse:\n    b = 3\n    a = 4\nb\na\n', [(10, 1), (11, 1)]),
    ('while-carried', 'a = 0\nwhile a:\n    if a:\n        a = 1\n    else:\n        b = a\n        a = 2\na\n', [(6, 13), (8, 1)]),
    ('import-star-two', 'from m1 import *\nfrom m2 import *\nx1\nx2\n', [(3, 2), (4, 2)]),
    ('self-assign-two-classes', 'class A:\n    def foo(self): pass\nclass B:\n    def foo(self): pass\nclass S:\n    def a(self):\n        self.x = A()\n    def b(self):\n        self.x = B()\n    def c(self):\n        self.x.foo\n        self.x\n', [(11, 18), (12, 14)]),
    ('self-assign-same-object', 'class A:\n    def foo(self): pass\nclass S:\n    def a(self, o):\n        self.x = o\n        self.y = A()\n    def b(self, o):\n        self.x = self.y\n        self.x = A()\n    def c(self):\n        self.x.foo\n', [(11, 18)]),
    # package listings: a directory of modules without __init__.py, a package, the top level
    ('listing-namespace-dir', 'from nsdir import \n', [(1, 18)]),
    ('listing-namespace-dir-prefix', 'from nsdir import n\n', [(1, 19)]),
    ('listing-package', 'from pk import \n', [(1, 15)]),
    ('listing-dotted', 'import pk.\n', [(1, 10)]),
    ('listing-top-prefix', 'import m\n', [(1, 8)]),
    ('listing-relative', 'from . import \n', [(1, 14)]),
    # a definition whose name stands far below its keyword, next to an assignment of the same name (equal sort keys if the name is not found)
    ('def-name-far-below-keyword', 'import os\nif os:\n    def \\\n \\\n \\\n \\\n \\\n \\\n        f(): return 1\nelse:\n    f = 1\nf\nf.real\n', [(12, 1), (13, 6)]),
    ('def-name-far-below-keyword-col0', 'import os\nif os:\n    def \\\n\\\n\\\n\\\n\\\nf(): return 1\nelse:\n    f = 1\nf\nf.real\n', [(11, 1), (12, 6)]),
    ('def-name-nfkc', 'import os\nif os:\n    def \u00b5(): return 1\nelse:\n    \u03bc = 1\n\u03bc\n\u03bc.real\n', [(6, 1), (7, 6)]),
    ('except-names', 'try:\n    pass\nexcept ValueError as e:\n    x = e\nexcept TypeError as e:\n    x = e\nelse:\n    x = None\nx\n', [(9, 1)]),
]


def requests(tier):
    """Deterministic request list: (label, text, pos)."""
    out = []
    for label, text, cursors in HAND:
        for pos in cursors:
            out.append((label, text, list(pos)))
    # generated programs: every read that has >= 2 alternatives according to supp
    k = 3
    n = 0
    for prog in ps.programs(k, 2, ctl=False):
        rp = ps.render(prog, 'plain')
        multi = []
        for r, rs in rp.reads.items():
            al = nc.supp_alts(rp.text, rs)
            if isinstance(al, _set) and len(al) >= 2:
                multi.append(rs)
        for rs in multi:
            n += 1
            out.append(('gen', rp.text, [rs.pos[0], rs.pos[1] + len(rs.var)]))
    if tier == 'quick':
        gen = [x for x in out if x[0] == 'gen']
        keep = gen[::max(1, len(gen) // 40)]
        out = [x for x in out if x[0] != 'gen'] + keep
    return out


FILE = nc.FILE


def answer(text, pos):
    """The three entry points on a fresh project; output as a JSON-able structure, order preserved."""
    P = Project([nc.PROJECT_DIR])
    out = {}
    try:
        out['location'] = location(P, text, tuple(pos), FILE)
    except Exception as e:
        out['location'] = 'EXC:' + type(e).__name__
    try:
        out['assist'] = list(assist(P, text, tuple(pos), FILE))
    except Exception as e:
        out['assist'] = 'EXC:' + type(e).__name__
    try:
        out['lint'] = [list(x[:4]) for x in lint(P, text, FILE)]
    except Exception as e:
        out['lint'] = 'EXC:' + type(e).__name__
    try:
        from supp.module import SourceModule
        m = SourceModule(P, 'm2', os.path.join(nc.PROJECT_DIR, 'm2.py'))
        out['exported_m2'] = [(k, list(v.declared_at)) for k, v in m._attrs.items()]
    except Exception as e:
        out['exported_m2'] = 'EXC:' + type(e).__name__
    return json.loads(json.dumps(out))


def source_order_violations(out):
    """alternative definitions of a multiply-bound name are listed in source order"""
    bad = []
    loc = out.get('location')
    if isinstance(loc, list):
        for item in loc:
            if isinstance(item, list):
                ps_ = [tuple(x['loc']) for x in item if x.get('file') == FILE]
                if ps_ != sorted(ps_):
                    bad.append(ps_)
    return bad


def explore_request(req, bound):
    global CH
    label, text, pos = req
    outs = {}
    nexec = [0]
    points = [0]

    def body(ch):
        global CH
        CH = ch
        _reset_ordinals()
        try:
            return answer(text, pos)
        finally:
            CH = None

    def on_exec(x):
        nexec[0] += 1
        points[0] += len(x.trace)
        k = json.dumps(x.obs, sort_keys=True)
        if k not in outs:
            outs[k] = x.choices

    n, left = e1.explore(body, bound=bound, on_exec=on_exec, max_exec=20000)
    return outs, nexec[0], points[0], bool(left), body


def check_request(req, bound, part=None):
    part = part or Part()
    out = []
    install()
    try:
        outs, nexec, points, capped, body = explore_request(req, bound)
        part.count('evaluations', nexec)
        part.count('set_order_executions', nexec)
        part.count('choice_points', points)
        if capped:
            part.count('capped_requests')
        label, text, pos = req
        if len(outs) > 1:
            ks = sorted(outs, key=lambda k: outs[k])
            a, b = json.loads(ks[0]), json.loads(ks[1])
            field = next((f for f in ('location', 'assist', 'lint', 'exported_m2') if a.get(f) != b.get(f)), '?')
            out.append(('order-dependent:%s' % field,
                        '%d distinct outputs over %d set-iteration orders for cursor %s; e.g. %s=%s under choices %s but %s under choices %s\n--- source ---\n%s' % (
                            len(outs), nexec, pos, field, json.dumps(a.get(field))[:300], outs[ks[0]], json.dumps(b.get(field))[:300], outs[ks[1]], text)))
        for k in outs:
            o = json.loads(k)
            so = source_order_violations(o)
            if so:
                out.append(('not-source-order', 'alternatives listed as %s for cursor %s\n--- source ---\n%s' % (so[0], pos, text)))
                break
        # replay self-test on this request: first and last recorded choice lists
        chs = list(outs.values())
        e1.self_test(body, [chs[0], chs[-1]])
    finally:
        uninstall()
    return out, (list(outs)[0] if outs else None)


def unit_request(arg):
    req, bound = arg
    p = Part()
    out, first = check_request(req, bound, p)
    p.count('requests')
    p.outcome(first or 'none')
    for sig, what in out:
        p.violation(sig, what, {'kind': 'request', 'req': list(req), 'bound': bound})
    if req[0] in ('three-way', 'composite-attr'):
        p.sample({'request': req[0], 'cursor': req[2], 'source': req[1]})
    return p


# ------------------------------------------------------------------ real-process grid

WORKER = r'''
import sys, json, logging
logging.disable(logging.CRITICAL)
prealloc = int(sys.argv[1])
junk = [object() for _ in range(prealloc)] + [[i] for i in range(prealloc // 3)]
sys.path[:0] = json.loads(sys.argv[2])
from mc import c17
reqs = json.load(sys.stdin)
print(json.dumps([c17.answer(t, p) for _l, t, p in reqs]))
'''


def grid_run(reqs, seed, prealloc, aslr_off=True):
    env = dict(os.environ, PYTHONHASHSEED=str(seed))
    cmd = [sys.executable, '-c', WORKER, str(prealloc), json.dumps([VERIF, os.environ.get('SUPP_REPO', '/repo')])]
    if aslr_off:
        cmd = ['setarch', '-R'] + cmd
    r = subprocess.run(cmd, input=json.dumps(reqs), capture_output=True, text=True, env=env, timeout=600)
    if r.returncode != 0:
        raise HarnessError('grid worker failed: %s' % r.stderr[-2000:])
    return json.loads(r.stdout)


def setarch_ok():
    try:
        return subprocess.run(['setarch', '-R', 'true'], capture_output=True).returncode == 0
    except OSError:
        return False


def unit_grid(arg):
    reqs, seed, prealloc, aslr = arg
    p = Part()
    p.grid = (seed, prealloc, grid_run(reqs, seed, prealloc, aslr))
    p.count('evaluations', len(reqs))
    p.count('grid_process_runs')
    return p


def replay(w):
    if w['kind'] == 'request':
        out, _ = check_request(tuple(w['req']), w['bound'])
        return out
    if w['kind'] == 'grid':
        # the same complete request list as in the run: the allocation history of the process is part of the configuration
        reqs = requests(w['tier'])
        greqs = reqs if w['tier'] != 'quick' else reqs[:30]
        a = grid_run(greqs, w['a'][0], w['a'][1])
        b = grid_run(greqs, w['b'][0], w['b'][1])
        if a[w['index']] != b[w['index']]:
            return [(w['sig'], 'outputs differ between configurations %s and %s' % (w['a'], w['b']))]
        return []
    raise ValueError(w)


def run(ctx):
    ctx.level = 'model_checking'
    bound = 1 if ctx.quick else 2
    reqs = requests(ctx.tier)
    ctx.pmap(unit_request, [(r, bound) for r in ctx.shuffled(reqs)], chunksize=1)
    # grid
    aslr = setarch_ok()
    greqs = reqs if not ctx.quick else reqs[:30]
    grid = [(greqs, s, pre, aslr) for s in (0, 1, 2) for pre in (0, 10, 1000, 5000)]
    results = []
    ctx.pmap(unit_grid, grid, chunksize=1, jobs=12, collect=lambda part: results.append(part.grid))
    results.sort(key=lambda x: (x[0], x[1]))
    base = results[0]
    # reference: in-process canonical output
    for i, req in enumerate(greqs):
        outs = {}
        for seed, pre, res in results:
            outs.setdefault(json.dumps(res[i], sort_keys=True), (seed, pre))
        if len(outs) > 1:
            ks = list(outs)
            a, b = json.loads(ks[0]), json.loads(ks[1])
            field = next((f for f in ('location', 'assist', 'lint', 'exported_m2') if a.get(f) != b.get(f)), '?')
            sig = 'process-dependent:%s' % field
            what = ('outputs differ between fresh interpreters (PYTHONHASHSEED, preallocated objects)=%s and %s for cursor %s: %s=%s vs %s\n--- source ---\n%s' % (
                outs[ks[0]], outs[ks[1]], req[2], field, json.dumps(a.get(field))[:300], json.dumps(b.get(field))[:300], req[1]))
            if aslr:
                ctx.violation(sig, what, {'kind': 'grid', 'req': list(req), 'a': list(outs[ks[0]]), 'b': list(outs[ks[1]]), 'sig': sig, 'tier': ctx.tier, 'index': i})
            else:
                ctx.count('grid_differences_not_reproducible_without_setarch')
        ctx.outcome(list(outs)[0])
    c = ctx.counters
    ctx.coverage.update({
        'states': int(c['choice_points']) + int(c['set_order_executions']),
        'transitions': int(c['choice_points']),
        'traces_validated_against_impl': int(c['set_order_executions']),
        'requests': len(reqs),
        'grid_requests': len(greqs),
        'grid_configurations': len(grid),
        'aslr_off': aslr,
        'bound_completed': bound,
        'rule': 'one evaluation = one execution of location/assist/lint/exported-names on a request under one complete assignment of '
                'set iteration orders (all permutations for sets of <=4 definition objects, 4 orders for big/string sets; at most %d sets deviate from canonical order per execution), '
                'or one request in one fresh-interpreter configuration; distinct_nontrivial = distinct canonical outputs' % bound,
    })
    if c['capped_requests']:
        ctx.caps_hit.append('%d requests hit the 20000-execution cap' % c['capped_requests'])
    ctx.assumptions += [
        'every order source inside supp is a set built through the module-global name `set` (grep: set(), no frozenset/listdir-order use); dict order is insertion order',
        'big sets and string sets are explored over 4 orders only (identity, reversed, rotated, first-two-swapped) within the deviation bound',
        'the real-process grid is reproducible only with ASLR off (setarch -R); without it differences are counted, not reported',
    ]
