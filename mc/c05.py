"""C05 - names resolve in the scope CPython's compiler assigns them to.

E3: (1) every read of every corpus file, (2) Pi_scope: every nesting (bounded depth) of
def / class / lambda / comprehension levels where each level independently binds / declares global /
declares nonlocal / ignores each of two identifiers and the innermost level reads them.
Reference: symtable.symtable(text).  For every alternative supp returns for a read, its owner must be
the block the compiler resolves the identifier to.
"""
import ast
import symtable
import itertools
import collections
import warnings

from .common import Part, watchdog, Timeout
from . import corpus
from . import namecheck as nc

from supp.util import Source, get_name_usages, np
from supp.nast import extract_scope
from supp.project import Project
from supp.name import MultiName, UndefinedName, RuntimeName

warnings.simplefilter('ignore')
P = Project(['/nonexistent-c05'])
COMP = ('listcomp', 'setcomp', 'dictcomp', 'genexpr')


class Blocks(ast.NodeVisitor):
    """map each Name(Load) node -> chain of symtable blocks (innermost last)"""

    def __init__(self, top):
        self.stack = [top]
        self.out = {}
        self.kids = {}

    def child(self, name, lineno, typ=None):
        cur = self.stack[-1]
        kids = self.kids.setdefault(cur.get_id(), list(cur.get_children()))
        for i, c in enumerate(kids):
            if c is not None and c.get_name() == name and c.get_lineno() == lineno:
                kids[i] = None
                return c
        if typ == 'comp':
            return None      # 3.12 inlines comprehensions of functions: no child block
        raise KeyError((name, lineno))

    def visit_Name(self, n):
        if isinstance(n.ctx, ast.Load):
            self.out[(n.lineno, n.col_offset, n.id)] = list(self.stack)

    def _func(self, n, name):
        for d in getattr(n, 'decorator_list', []):
            self.visit(d)
        a = n.args
        for d in a.defaults + [k for k in a.kw_defaults if k]:
            self.visit(d)
        for arg in a.posonlyargs + a.args + a.kwonlyargs + [x for x in (a.vararg, a.kwarg) if x]:
            if arg.annotation:
                self.visit(arg.annotation)
        if getattr(n, 'returns', None):
            self.visit(n.returns)
        c = self.child(name, n.lineno)
        self.stack.append(c)
        if isinstance(n.body, list):
            for s in n.body:
                self.visit(s)
        else:
            self.visit(n.body)
        self.stack.pop()

    def visit_FunctionDef(self, n):
        self._func(n, n.name)

    visit_AsyncFunctionDef = visit_FunctionDef

    def visit_Lambda(self, n):
        self._func(n, 'lambda')

    def visit_ClassDef(self, n):
        for d in n.decorator_list:
            self.visit(d)
        for b in n.bases:
            self.visit(b)
        for k in n.keywords:
            self.visit(k.value)
        c = self.child(n.name, n.lineno)
        self.stack.append(c)
        for s in n.body:
            self.visit(s)
        self.stack.pop()

    def _comp(self, n, name):
        g0 = n.generators[0]
        self.visit(g0.iter)
        c = self.child(name, n.lineno, 'comp')
        self.stack.append(c or self.stack[-1])
        self.visit(g0.target)
        for i in g0.ifs:
            self.visit(i)
        for g in n.generators[1:]:
            self.visit(g.target)
            self.visit(g.iter)
            for i in g.ifs:
                self.visit(i)
        if isinstance(n, ast.DictComp):
            self.visit(n.key)
            self.visit(n.value)
        else:
            self.visit(n.elt)
        self.stack.pop()

    def visit_ListComp(self, n):
        self._comp(n, 'listcomp')

    def visit_SetComp(self, n):
        self._comp(n, 'setcomp')

    def visit_DictComp(self, n):
        self._comp(n, 'dictcomp')

    def visit_GeneratorExp(self, n):
        self._comp(n, 'genexpr')


def owner(chain, name):
    """-> (kind, index of the owning block in chain).  Comprehension blocks are transparent:
    comprehension targets are compared as bindings of the enclosing scope."""
    i = len(chain) - 1
    while i > 0 and chain[i].get_type() == 'function' and chain[i].get_name() in COMP:
        try:
            s = chain[i].lookup(name)
        except KeyError:
            i -= 1
            continue
        if s.is_local():
            # a comprehension target: owner is the enclosing non-comprehension block
            j = i - 1
            while j > 0 and chain[j].get_type() == 'function' and chain[j].get_name() in COMP:
                j -= 1
            return ('comp-local', j)
        i -= 1
    blk = chain[i]
    try:
        s = blk.lookup(name)
    except KeyError:
        return ('unknown', None)
    if blk.get_type() == 'module':
        return ('global', 0)
    if s.is_local():
        return ('local', i)
    if s.is_global():
        return ('global', 0)
    if s.is_free():
        j = i - 1
        while j >= 0:
            b = chain[j]
            if b.get_type() == 'function' and b.get_name() not in COMP:
                try:
                    if b.lookup(name).is_local():
                        return ('free', j)
                except KeyError:
                    pass
            j -= 1
        return ('free?', None)
    return ('other', None)


def has_type_params(tree):
    for n in ast.walk(tree):
        if getattr(n, 'type_params', None):
            return True
        if type(n).__name__ == 'TypeAlias':
            return True
    return False


def check_text(text, fn, part, label):
    """-> list of (sig, what)"""
    out = []
    try:
        tree = ast.parse(text, fn)
        top = symtable.symtable(text, fn, 'exec')
    except (SyntaxError, ValueError, RecursionError):
        part.count('skipped_unparsable')
        return out
    if has_type_params(tree):
        part.count('skipped_pep695')
        return out
    comp_targets = {}      # position of a comprehension variable -> the comprehension node
    for c in ast.walk(tree):
        if isinstance(c, (ast.ListComp, ast.SetComp, ast.DictComp, ast.GeneratorExp)):
            for g in c.generators:
                for t in ast.walk(g.target):
                    if isinstance(t, ast.Name):
                        comp_targets[(t.lineno, t.col_offset)] = c
    nonlocals = set()
    implicit = set()      # names some scope owns only through `x += 1` or `x: int` (no value): locals without a binding statement
    for n in ast.walk(tree):
        if isinstance(n, ast.Nonlocal):
            nonlocals.update(n.names)
        elif isinstance(n, ast.AugAssign) and isinstance(n.target, ast.Name):
            implicit.add(n.target.id)
        elif isinstance(n, ast.AnnAssign) and n.value is None and isinstance(n.target, ast.Name):
            implicit.add(n.target.id)
    s = Source(text, fn)
    try:
        with watchdog(60):
            extract_scope(s, P)
    except Timeout:
        raise
    except Exception:
        part.count('extract_crashes')     # C08's business
        return out
    b = Blocks(top)
    try:
        b.visit(tree)
    except KeyError:
        part.count('skipped_block_mapping_failed')
        return out
    seen = set()
    for n in get_name_usages(s.tree):
        chain = b.out.get((n.lineno, n.col_offset, n.id))
        if chain is None or not hasattr(n, 'flow'):
            part.count('reads_unmapped')
            continue
        kind, idx = owner(chain, n.id)
        part.count('reads')
        try:
            nm = n.flow.names_at(np(n)).get(n.id)
        except RecursionError:
            part.count('recursion_errors')
            continue
        alts = nm.alt_names if isinstance(nm, MultiName) else ([nm] if nm is not None else [])
        alts = [a for a in alts if not isinstance(a, UndefinedName)]
        if not alts:
            part.count('reads_unresolved')     # C01's business
            continue
        inner = chain[-1]
        # reads directly in a class body are compared only for names the class does not itself bind
        j = len(chain) - 1
        while j > 0 and chain[j].get_type() == 'function' and chain[j].get_name() in COMP:
            j -= 1
        if chain[j].get_type() == 'class' and kind == 'local' and idx == j:
            part.count('reads_class_body_own_name_skipped')
            continue
        for a in alts:
            if isinstance(a, RuntimeName):
                sk, sname = 'builtin', None
            else:
                sc = a.scope
                if a.name in getattr(sc, 'globals', ()):
                    sc = sc.top
                sk, sname = type(sc).__name__, getattr(sc, 'name', None)
            if kind == 'global':
                ok = sk in ('SourceScope', 'builtin')
                want = 'module/builtin'
            elif kind in ('local', 'free', 'comp-local'):
                blk = chain[idx]
                bt = blk.get_type()
                want = '%s %s' % (bt, blk.get_name())
                if bt == 'module':
                    ok = sk == 'SourceScope'
                elif sk == 'builtin':
                    ok = False
                elif bt == 'function':
                    ok = sk == 'FuncScope' and sname == blk.get_name()
                elif bt == 'class':
                    ok = sk == 'ClassScope' and sname == blk.get_name()
                else:
                    ok = False
            else:
                part.count('reads_compiler_kind_' + kind)
                continue
            part.count('alternatives_compared')
            if not ok:
                if n.id in nonlocals:
                    sig = 'wrong-scope:name-declared-nonlocal'
                elif tuple(getattr(a, 'declared_at', ())) in comp_targets and not inside(comp_targets[tuple(a.declared_at)], n):
                    # a read OUTSIDE a comprehension resolved to that comprehension's variable (supp lets the variables of a
                    # comprehension flow on behind it; tests/test_scope.py::test_lambda_in_gen_expression pins that)
                    sig = 'wrong-scope:comprehension-variable-visible-outside'
                elif n.id in implicit and kind in ('local', 'free') and not owner_binds(tree, chain[idx] if idx is not None else None, n.id):
                    sig = 'wrong-scope:local-only-through-augassign-or-annotation'
                else:
                    sig = 'wrong-scope:compiler=%s(%s):supp=%s' % (kind, chain[idx].get_type() if idx is not None else '-', sk)
                if sig not in seen:
                    seen.add(sig)
                    out.append((sig, '%s: `%s` at %s: compiler resolves it as %s in %s, supp offers the binding %r owned by %s %s' % (
                        label, n.id, np(n), kind, want, a, sk, sname or '')))
    return out


def inside(comp, node):
    """is the read textually inside the comprehension?"""
    return ((comp.lineno, comp.col_offset) <= (node.lineno, node.col_offset)
            and (node.end_lineno, node.end_col_offset) <= (comp.end_lineno, comp.end_col_offset))


def owner_binds(tree, blk, name):
    """does the function the compiler makes `name` local to contain an ordinary binding of it (not just x += 1 / x: int)?"""
    if blk is None:
        return True
    for fn in ast.walk(tree):
        if isinstance(fn, (ast.FunctionDef, ast.AsyncFunctionDef)) and fn.name == blk.get_name() and fn.lineno == blk.get_lineno():
            for n in ast.walk(fn):
                if isinstance(n, ast.Name) and n.id == name and isinstance(n.ctx, ast.Store):
                    par = [p for p in ast.walk(fn) if isinstance(p, (ast.AugAssign, ast.AnnAssign)) and p.target is n]
                    if not par or (isinstance(par[0], ast.AnnAssign) and par[0].value is not None):
                        return True
                elif isinstance(n, ast.arg) and n.arg == name:
                    return True
            return False
    return True


IMPLICIT_LOCALS = []
for _how in ('x += 1', 'x: int'):
    for _outer in ('x = 0\n', ''):
        for _encl in (False, True):
            for _reader in ('    return x', '    def f2():\n        return x\n    return f2()', '    return [x for q in [1]]', '    return (lambda: x)()',
                            '    class K2:\n        v = x\n    return K2'):
                _body = '    %s\n%s\n' % (_how, _reader)
                if _encl:
                    IMPLICIT_LOCALS.append(_outer + 'def f0():\n    x = 1\n' + ''.join('    ' + l + '\n' for l in ('def f1():\n' + _body).splitlines()) + '    return f1()\nf0()\n')
                else:
                    IMPLICIT_LOCALS.append(_outer + 'def f1():\n' + _body + 'f1()\n')


# comprehension / lambda shapes the nesting generator does not produce (siblings inside one element expression)
HAND_SCOPES = [
    'c = 0\ndef f(x):\n    return [([1 for b in c], (lambda: c)()) for c in x]\nf([[1]])\n',
    'c = 0\ndef f(x):\n    return [((lambda: c)(), [1 for b in c]) for c in x]\nf([[1]])\n',
    'c = 0\nclass K:\n    v = [([1 for b in c], (lambda: c)()) for c in [[1]]]\n',
    'c = 0\ndef f(x):\n    return [[(lambda: (c, d))() for d in c] for c in x]\nf([[1]])\n',
    'c = 0\ndef f(x):\n    return {(lambda: c)(): [c for q in c] for c in x}\n',
    'c = 0\ndef f(x):\n    g = (lambda: c)\n    return [g() for c in x]\nf([1])\n',
]


def unit_implicit(_):
    part = Part()
    for text in IMPLICIT_LOCALS + HAND_SCOPES:
        try:
            symtable.symtable(text, '<gen>', 'exec')
        except SyntaxError:
            part.count('scope_shapes_rejected_by_compiler')
            continue
        part.count('evaluations')
        part.count('programs')
        for sig, what in check_text(text, 'gen.py', part, 'implicit local'):
            part.violation(sig, what + '\n--- source ---\n' + text, {'kind': 'text', 'text': text})
    part.outcome('implicit-locals')
    return part


# ------------------------------------------------------------------ Pi_scope

ACTS = ('none', 'bind', 'global', 'nonlocal', 'global-decl')   # global-decl: declared global, not bound at this level
IDS = ('x', 'y')


def levels(depth, y_acts=ACTS):
    def_acts = ACTS + ('param', 'posonly', 'kwonly')
    stmt_levels = [('class', ax, ay) for ax in ACTS for ay in y_acts]
    stmt_levels += [('def', ax, ay) for ax in def_acts for ay in (def_acts if len(y_acts) > 1 else y_acts)]
    expr_levels = [(k, ax, ay) for k in ('lambda', 'comp') for ax in ('none', 'bind') for ay in (('none', 'bind') if len(y_acts) > 1 else ('none',))]

    def rec(d, expr_only):
        if d == 0:
            yield ()
            return
        for lv in (expr_levels if expr_only else stmt_levels + expr_levels):
            for rest in rec(d - 1, expr_only or lv[0] in ('lambda', 'comp')):
                yield (lv,) + rest
    for d in range(1, depth + 1):
        for ls in rec(d, False):
            yield ls


def render_scope(modbind, ls):
    """module text for a nesting; returns None when the shape is not expressible"""
    lines = []
    for v, b in zip(IDS, modbind):
        if b:
            lines.append('%s = 0' % v)

    def expr(ls):
        if not ls:
            return '(x, y)'
        (k, ax, ay), rest = ls[0], ls[1:]
        binds = [v for v, a in zip(IDS, (ax, ay)) if a == 'bind']
        if k == 'lambda':
            return '(lambda %s: %s)(%s)' % (', '.join(binds), expr(rest), ', '.join('1' for _ in binds))
        tgt = ', '.join(binds) if binds else 'q'
        src = '[(%s)]' % ', '.join('1' for _ in binds) if len(binds) != 1 else '[1]'
        if not binds:
            src = '[1]'
        return '[%s for %s in %s]' % (expr(rest), tgt if len(binds) != 1 else binds[0], src)

    def stmts(ls, ind, n):
        pad = '    ' * ind
        if not ls:
            lines.append(pad + 'x; y')
            return
        (k, ax, ay), rest = ls[0], ls[1:]
        if k in ('lambda', 'comp'):
            lines.append(pad + 'r%d = %s' % (n, expr(ls)))
            return
        name = '%s%d' % ('f' if k == 'def' else 'K', n)
        if k == 'def':
            po = [v for v, a in zip(IDS, (ax, ay)) if a == 'posonly']
            pp = [v for v, a in zip(IDS, (ax, ay)) if a == 'param']
            kw = [v for v, a in zip(IDS, (ax, ay)) if a == 'kwonly']
            sig = []
            if po:
                sig += po + ['/']
            elif pp:
                sig += ['p0', '/']        # a positional-only parameter in front of the ordinary ones
            sig += pp
            if kw:
                sig += ['*'] + kw
            lines.append(pad + 'def %s(%s):' % (name, ', '.join(sig)))
        else:
            lines.append(pad + 'class %s:' % name)
        for v, a in zip(IDS, (ax, ay)):
            if a in ('global', 'nonlocal', 'global-decl'):
                lines.append(pad + '    %s %s' % (a.split('-')[0], v))
        for v, a in zip(IDS, (ax, ay)):
            if a in ('bind', 'global', 'nonlocal'):
                lines.append(pad + '    %s = %d' % (v, n))
        stmts(rest, ind + 1, n + 1)
        if k == 'def':
            lines.append(pad + '    return 0')
            lines.append(pad + '%s()' % name)
    stmts(ls, 0, 1)
    return '\n'.join(lines) + '\n'


def shapes(tier):
    """quick: depth<=2 over both identifiers, depth 3 with only x varying; thorough: depth<=3 over both"""
    if tier == 'quick':
        return [ls for ls in levels(2)] + [ls for ls in levels(3, ('none',)) if len(ls) == 3]
    return list(levels(3))


_SH = {}


def unit_scope(arg):
    tier, lo, hi = arg
    if tier not in _SH:
        _SH[tier] = shapes(tier)
    part = Part()
    for i, ls in enumerate(_SH[tier][lo:hi]):
        for modbind in ((1, 1), (1, 0), (0, 0)):
            text = render_scope(modbind, ls)
            try:
                symtable.symtable(text, '<gen>', 'exec')
            except SyntaxError:
                part.count('scope_shapes_rejected_by_compiler')
                continue
            part.count('evaluations')
            part.count('programs')
            for sig, what in check_text(text, 'gen.py', part, 'generated nesting'):
                part.violation(sig, what + '\n--- source ---\n' + text, {'kind': 'text', 'text': text})
            if (lo + i) % 500 == 0:
                part.sample({'kind': 'generated nesting', 'source': text}, limit=2)
    part.outcome(('scope', lo))
    return part


def unit_file(path):
    part = Part()
    text = corpus.read(path)
    if text is None:
        part.count('files_skipped')
        return part
    part.count('evaluations')
    part.count('files')
    import os
    for sig, what in check_text(text, path, part, os.path.basename(path)):
        part.violation(sig, what, {'kind': 'file', 'path': path})
    part.outcome(('file', path, part.counters['reads']))
    return part


def _dispatch(u):
    return u[0](u[1])


def replay(w):
    p = Part()
    if w['kind'] == 'text':
        return check_text(w['text'], 'gen.py', p, 'generated nesting')
    import os
    return check_text(corpus.read(w['path']), w['path'], p, os.path.basename(w['path']))


def run(ctx):
    ctx.level = 'exploration'
    depth = 3
    n = len(shapes(ctx.tier))
    step = 400
    units = [(unit_scope, (ctx.tier, lo, min(n, lo + step))) for lo in range(0, n, step)]
    units += [(unit_file, f) for f in corpus.files('thorough')]     # the whole stdlib is cheap enough for every run
    units.append((unit_implicit, None))
    ctx.pmap(_dispatch, ctx.shuffled(units), chunksize=2)
    c = ctx.counters
    ctx.counters['distinct_nontrivial'] = int(c['programs']) + int(c['files'])
    ctx.coverage.update({
        'rule': 'every read of every corpus file and of every generated nesting (depth<=%d levels of def/class/lambda/comprehension, each level '
                'none/bind/global+bind/nonlocal+bind/global-declared-only per identifier x,y (quick: depth 3 varies x only); module binds both, x only, or neither) compared with symtable; distinct_nontrivial = '
                'modules analysed (each has >=1 compared read)' % depth,
        'scope_shapes': n,
        'reads_compared': int(c['reads']),
        'alternatives_compared': int(c['alternatives_compared']),
        'files': int(c['files']),
    })
    ctx.assumptions += [
        'symtable of CPython 3.12 is the reference; comprehensions inlined into functions have no block of their own (their targets are compared as bindings of the enclosing scope)',
        'PEP 695 files are skipped (counted); unresolved reads are C01\'s business and only counted',
        'reads directly in a class body are compared only for names the class does not itself bind',
    ]
