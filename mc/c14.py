"""C14 - MessagePack codec: lossless, spec-conformant, rejects truncation.

E3 (bounded input-space enumeration), every space below is enumerated completely:
  A. integers within +-3 of every format boundary (both signs) + out-of-range integers
  B. str/bin/ext/array/map lengths within +-2 of every length boundary (+ fixext sizes)
  C. value trees over a 9-leaf alphabet (one leaf per family), bounded depth/width
  D. for every value of A-C: every legal non-minimal top-level form from the reference encoder,
     and one-child-non-minimal forms for containers
  E. for every encoding produced: every cut point (proper prefix) must be "insufficient data"
  F. every byte string of length <= 2 (thorough: <= 3) classified by both decoders
Oracle = reference codec in mc/refmsgpack.py written from the specification.
"""
import struct
import itertools

from .common import Part
from . import refmsgpack as ref

from supp import umsgpack as um


# ------------------------------------------------------------------ value conversion / comparison

def to_um(v):
    if isinstance(v, tuple) and v and v[0] == 'ext':
        return um.Ext(v[1], v[2])
    if isinstance(v, (list, tuple)):
        return [to_um(e) for e in v]
    if isinstance(v, dict):
        return {to_umk(k): to_um(x) for k, x in v.items()}
    return v


def to_umk(k):
    if isinstance(k, tuple):
        return tuple(to_umk(e) for e in k)
    return k


def norm(v):
    """Canonical, type-tagged form (True != 1, 1.0 != 1, nan == nan, tuples as lists)."""
    if v is None:
        return ('nil',)
    if isinstance(v, bool):
        return ('bool', v)
    if isinstance(v, int):
        return ('int', v)
    if isinstance(v, float):
        return ('float', struct.pack('>d', v))
    if isinstance(v, str):
        return ('str', v)
    if isinstance(v, bytes):
        return ('bin', v)
    if isinstance(v, um.Ext):
        t = v.type
        return ('ext', t - 256 if t > 127 else t, v.data)
    if isinstance(v, tuple) and v and v[0] == 'ext' and len(v) == 3 and isinstance(v[2], bytes):
        return ('ext', v[1], v[2])
    if isinstance(v, (list, tuple)):
        return ('arr', tuple(norm(e) for e in v))
    if isinstance(v, dict):
        return ('map', tuple((norm(k), norm(x)) for k, x in v.items()))
    return ('?', repr(v))


def um_loads(b):
    """-> ('ok', normvalue) | ('insufficient',) | ('reject', cls) | ('crash', cls, msg)"""
    try:
        return ('ok', norm(um.loads(b)))
    except um.InsufficientDataException:
        return ('insufficient',)
    except (um.ReservedCodeException, um.InvalidStringException):
        return ('reject',)
    except (um.UnhashableKeyException, um.DuplicateKeyException):
        return ('keylimit',)
    except Exception as e:
        return ('crash', type(e).__name__, str(e)[:80])


def ref_loads(b):
    try:
        return ('ok', norm(ref.decode(b)))
    except ref.Insufficient:
        return ('insufficient',)
    except ref.Reject:
        return ('reject',)
    except ref.KeyLimit:
        return ('keylimit',)


def family(v):
    n = norm(v)[0]
    return n


# ------------------------------------------------------------------ per-value check (also the replay unit)

def big(b):
    return len(b) > 2048


def cut_points(n, full, container=False):
    if n <= 2048 or (full and not container):
        return range(n)
    if container:
        # decoding a prefix of a big array/map costs O(prefix): header, tail and a few interior points
        k = 64 if full else 6
        pts = set(range(0, 24)) | set(range(n - (24 if full else 6), n)) | set(range(0, n, max(1, n // k)))
    else:
        pts = set(range(0, 24)) | set(range(n - 24, n)) | set(range(0, n, 257))
    return sorted(pts)


def show(v):
    r = repr(v)
    return r if len(r) < 160 else r[:70] + '...<%d chars>...' % len(r) + r[-40:]


def check_value(v, part, full_cuts=False, forms=True):
    """v is a reference-model value. Appends violations to part."""
    out = []
    wit = {'kind': 'value', 'value': enc_witness(v)}
    fam = family(v)
    try:
        uv = to_um(v)
    except Exception as e:
        out.append(('construct:%s:%s' % (fam, type(e).__name__),
                    'cannot even construct %s for packing: %s' % (show(v), e)))
        uv = None
    enc = None
    if uv is not None:
        try:
            enc = um.dumps(uv)
        except Exception as e:
            out.append(('dumps-raises:%s:%s' % (fam, type(e).__name__), 'dumps(%s) raised %r' % (show(v), e)))
    nv = norm(v)
    if enc is not None:
        part.count('encodings')
        # round trip through supp
        r = um_loads(enc)
        if r != ('ok', nv):
            out.append(('roundtrip:%s' % fam, 'loads(dumps(v)) != v for v=%s: got %s' % (show(v), show(r))))
        # valid msgpack per the independent decoder
        rr = ref_loads(enc)
        if rr != ('ok', nv):
            out.append(('invalid-encoding:%s' % fam,
                        'reference decoder reads dumps(v)=%s.. as %s, v=%s' % (enc[:12].hex(), show(rr), show(v))))
        elif len(ref.encode(v)) != len(enc):
            part.count('nonminimal_encodings_by_supp')
        # every proper prefix is insufficient data
        for i in cut_points(len(enc), full_cuts, isinstance(v, (list, dict))):
            part.count('cut_points')
            c = um_loads(enc[:i])
            if c != ('insufficient',):
                out.append(('prefix-accepted:%s' % fam,
                            'loads(dumps(v)[:%d]) of %d bytes gave %s, v=%s' % (i, len(enc), show(c), show(v))))
                break
    # every legal alternative encoding is accepted and equal
    if forms:
        for e, desc in alt_encodings(v):
            part.count('legal_encodings_decoded')
            r = um_loads(e)
            if r != ('ok', nv):
                out.append(('spec-valid-rejected:%s:%s' % (fam, r[0] if r[0] != 'crash' else 'crash:' + r[1]),
                            'loads of legal encoding (%s) %s.. of %s gave %s' % (desc, e[:12].hex(), show(v), show(r))))
            # prefixes of alternative forms: header region only (payload region is covered by the minimal form)
            for i in range(min(len(e), 12)):
                part.count('cut_points')
                c = um_loads(e[:i])
                if c != ('insufficient',):
                    out.append(('prefix-accepted:%s' % fam,
                                'loads(%s-form[:%d]) gave %s, v=%s' % (desc, i, show(c), show(v))))
                    break
    for sig, what in out:
        part.violation(sig, what, wit)
    return out


def alt_encodings(v):
    fs = ref.forms_of(v)
    for f in fs:
        yield ref.encode(v, f), 'top=%s' % (f,)
    # one child in a non-minimal form under a minimal header
    if isinstance(v, list) and len(v) <= 4:
        for i, ch in enumerate(v):
            for f in ref.forms_of(ch)[1:]:
                parts = [ref.encode(x) for x in v]
                parts[i] = ref.encode(ch, f)
                yield ref._hdr_len('array', len(v)) + b''.join(parts), 'child%d=%s' % (i, f)
    if isinstance(v, dict) and len(v) <= 4:
        items = list(v.items())
        for i, (k, x) in enumerate(items):
            for which, ch in (('k', k), ('v', x)):
                for f in ref.forms_of(ch)[1:]:
                    parts = []
                    for j, (kk, xx) in enumerate(items):
                        parts.append(ref.encode(kk, f if (j == i and which == 'k') else None))
                        parts.append(ref.encode(xx, f if (j == i and which == 'v') else None))
                    yield ref._hdr_len('map', len(v)) + b''.join(parts), '%s%d=%s' % (which, i, f)


def check_out_of_range(n, part):
    wit = {'kind': 'bigint', 'value': str(n)}
    try:
        b = um.dumps(n)
    except um.UnsupportedTypeException:
        return []
    except Exception as e:
        sig, what = 'out-of-range:raises-%s' % type(e).__name__, 'dumps(%d) raised %r (not a pack refusal)' % (n, e)
    else:
        sig, what = 'out-of-range:wrapped', 'dumps(%d) returned %s instead of refusing' % (n, b.hex())
    part.violation(sig, what, wit)
    return [(sig, what)]


def check_bytes(b, part):
    a = um_loads(b)
    r = ref_loads(b)
    part.count('byte_strings')
    if r[0] == 'keylimit':
        part.count('byte_strings_keylimit_skipped')
        return []
    part.outcome((a[0], r[0], b[:1].hex()))
    if a != r:
        sig = 'decoders-disagree:%s-vs-%s:first=%s' % (a[0] if a[0] != 'crash' else 'crash:' + a[1], r[0], byte_class(b[0]))
        what = 'bytes %s: supp %s, reference %s' % (b.hex(), show(a), show(r))
        part.violation(sig, what, {'kind': 'bytes', 'hex': b.hex()})
        return [(sig, what)]
    return []


def byte_class(c):
    for lo, hi, n in ((0, 0x7f, 'pfix'), (0x80, 0x8f, 'fixmap'), (0x90, 0x9f, 'fixarr'), (0xa0, 0xbf, 'fixstr'),
                      (0xc0, 0xc3, 'nil/bool'), (0xc4, 0xc6, 'bin'), (0xc7, 0xc9, 'ext'), (0xca, 0xcb, 'float'),
                      (0xcc, 0xcf, 'uint'), (0xd0, 0xd3, 'int'), (0xd4, 0xd8, 'fixext'), (0xd9, 0xdb, 'str'),
                      (0xdc, 0xdd, 'arr'), (0xde, 0xdf, 'map'), (0xe0, 0xff, 'nfix')):
        if lo <= c <= hi:
            return n


# ------------------------------------------------------------------ witness (JSON) encoding of values

def enc_witness(v):
    if isinstance(v, bytes):
        return {'b': v.hex()} if len(v) <= 64 else {'brep': [v[:1].hex(), len(v)]}
    if isinstance(v, str):
        return v if len(v) <= 64 else {'srep': [v[:1], len(v)]}
    if isinstance(v, float):
        return {'f': struct.pack('>d', v).hex()}
    if isinstance(v, tuple) and v and v[0] == 'ext':
        return {'ext': [v[1], enc_witness(v[2])]}
    if isinstance(v, (list, tuple)):
        if len(v) > 64:
            return {'lrep': [enc_witness(v[0]), len(v)]}
        return {'l': [enc_witness(e) for e in v]}
    if isinstance(v, dict):
        if len(v) > 64:
            return {'drep': len(v)}
        return {'d': [[enc_witness(k), enc_witness(x)] for k, x in v.items()]}
    if isinstance(v, int) and not isinstance(v, bool):
        return {'i': str(v)}
    return v


def dec_witness(w, key=False):
    if isinstance(w, dict):
        (k, x), = w.items()
        if k == 'b':
            return bytes.fromhex(x)
        if k == 'brep':
            return bytes.fromhex(x[0]) * x[1]
        if k == 'srep':
            return x[0] * x[1]
        if k == 'f':
            return struct.unpack('>d', bytes.fromhex(x))[0]
        if k == 'ext':
            return ('ext', x[0], dec_witness(x[1]))
        if k == 'l':
            r = [dec_witness(e, key) for e in x]
            return tuple(r) if key else r
        if k == 'lrep':
            return [dec_witness(x[0])] * x[1]
        if k == 'drep':
            return {i: 0 for i in range(x)}
        if k == 'd':
            return {dec_witness(a, True): dec_witness(b) for a, b in x}
        if k == 'i':
            return int(x)
    return w


def replay(w):
    p = Part()
    if w['kind'] == 'value':
        return check_value(dec_witness(w['value']), p, full_cuts=True)
    if w['kind'] == 'bigint':
        return check_out_of_range(int(w['value']), p)
    if w['kind'] == 'bytes':
        return check_bytes(bytes.fromhex(w['hex']), p)
    raise ValueError(w)


# ------------------------------------------------------------------ the spaces

LEAVES = [None, True, 0, -33, 70000, 1.5, 'a', b'b', ('ext', 5, b'x')]
HASHABLE_LEAVES = [None, True, 0, -33, 70000, 1.5, 'a', b'b']


def boundary_ints():
    out = []
    for p in (5, 7, 8, 15, 16, 31, 32, 63, 64):
        for d in range(-3, 4):
            out.append(2**p + d)
            out.append(-(2**p) + d)
    out += list(range(-40, 4)) + [0, 1, 126, 127, 128]
    return sorted(set(out))


def boundary_lens():
    out = set([0, 1, 2, 3, 4, 5, 7, 8, 9])
    for b in (16, 32, 256, 65536):
        out |= set(range(b - 3, b + 3))
    return sorted(out)


def lists_over(alpha, maxn):
    for n in range(maxn + 1):
        for t in itertools.product(alpha, repeat=n):
            yield list(t)


def dicts_over(keys, vals, maxn):
    for n in range(maxn + 1):
        for ks in itertools.combinations(keys, n):
            for vs in itertools.product(vals, repeat=n):
                yield dict(zip(ks, vs))


def unit_ints(_):
    p = Part()
    for n in boundary_ints():
        p.count('evaluations')
        if -2**63 <= n < 2**64:
            check_value(n, p)
            p.outcome(('int', ref.int_forms(n)[0], len(ref.encode(n))))
        else:
            check_out_of_range(n, p)
            p.count('out_of_range_ints')
            p.outcome(('int', 'out-of-range', n > 0))
    for f in (0.0, -0.0, 1.5, 1e300, float('inf'), float('-inf'), float('nan'), 5e-324, 3.14, 1.0000001):
        p.count('evaluations')
        check_value(f, p)
        p.outcome(('float', repr(f)))
    p.sample({'space': 'A boundary integers', 'example': [str(x) for x in boundary_ints()[:3]] + ['...', str(2**64 - 1), str(2**64)]})
    return p


def unit_len(arg):
    kind, n, full = arg
    p = Part()
    p.count('evaluations')
    if kind == 'str':
        vs = ['a' * n]
        if n % 2 == 0 and n:
            vs.append('é' * (n // 2))      # byte length, not character count, selects the format
        if n >= 3:
            vs.append('€' + 'a' * (n - 3))
    elif kind == 'bin':
        vs = [b'\xc1' * n]
    elif kind == 'ext':
        vs = [('ext', 1, b'\x01' * n), ('ext', 127, b'\xff' * n), ('ext', -1, b'\x00' * n), ('ext', -128, b'\x7f' * n)]
    elif kind == 'array':
        vs = [[0] * n]
        if n < 300:
            vs.append([None, 'a'] * (n // 2) + [1.5] * (n % 2))
    else:
        vs = [{i: 0 for i in range(n)}]
        if n < 300:
            vs.append({str(i): [i] for i in range(n)})
    for v in vs:
        check_value(v, p, full_cuts=full)
        p.outcome((kind, n, family(v)))
    p.sample({'space': 'B length boundaries', 'example': '%s of length %d' % (kind, n)})
    return p


def tree_values(tier):
    T0 = LEAVES
    # depth 2, width <= 3
    for v in lists_over(T0, 3):
        yield v
    for v in dicts_over(HASHABLE_LEAVES, T0, 2):
        yield v
    if tier != 'quick':
        for v in dicts_over(HASHABLE_LEAVES, T0, 3):
            if len(v) == 3:
                yield v
    # depth 3 over a reduced depth-2 alphabet
    T1r = list(T0) + list(lists_over(T0, 2))[1:] + [d for d in dicts_over(HASHABLE_LEAVES, T0, 1)]
    for v in lists_over(T1r, 2):
        yield v
    keys = HASHABLE_LEAVES + [(), (0,), ('a', None)]
    for v in dicts_over(keys, T1r, 1):
        yield v
    if tier != 'quick':
        small = list(T0) + [[], [0], {}, {'a': 0}, [[]], ['a', b'b']]
        for v in lists_over(small, 4):
            if len(v) == 4:
                yield v
        for v in dicts_over(keys, small, 2):
            if len(v) == 2:
                yield v
        # depth 4 spine
        for a in T1r:
            yield [[a]]
            yield {'k': [a]}
            yield [{0: a}]


def unit_trees(arg):
    tier, lo, hi = arg
    p = Part()
    for i, v in enumerate(itertools.islice(tree_values(tier), lo, hi)):
        p.count('evaluations')
        p.count('tree_values')
        check_value(v, p)
        if i % 997 == 0:
            p.outcome(('tree', stable(v)))
    if lo == 0:
        p.sample({'space': 'C value trees', 'example': repr([LEAVES[0], {'a': [1.5, b'b']}, ('ext', 5, b'x')])})
    return p


def stable(v):
    return repr(norm(v))[:200]


def unit_bytes(arg):
    n, first = arg
    p = Part()
    if n == 0:
        check_bytes(b'', p)
        p.count('evaluations')
        return p
    for rest in itertools.product(range(256), repeat=n - 1):
        p.count('evaluations')
        check_bytes(bytes((first,) + rest), p)
    if first == 0x92:
        p.sample({'space': 'F all byte strings of length %d' % n, 'example': bytes((first,) + (0,) * (n - 1)).hex()})
    return p


def run(ctx):
    ctx.level = 'exploration'
    quick = ctx.quick
    units = [(unit_ints, None)]
    for kind in ('str', 'bin', 'ext', 'array', 'map'):
        for n in boundary_lens():
            units.append((unit_len, (kind, n, not quick)))
    ntree = sum(1 for _ in tree_values(ctx.tier))
    step = 4000
    for lo in range(0, ntree, step):
        units.append((unit_trees, (ctx.tier, lo, lo + step)))
    maxlen = 2 if quick else 3
    units.append((unit_bytes, (0, 0)))
    for n in range(1, maxlen + 1):
        for first in range(256):
            units.append((unit_bytes, (n, first)))
    units = ctx.shuffled(units)
    ctx.pmap(_dispatch, units, chunksize=4)
    # self-test of the reference: it must round-trip its own minimal encodings of the leaf alphabet
    for v in LEAVES + [[1, 'a'], {'k': [None]}]:
        if norm(ref.decode(ref.encode(v))) != norm(v):
            from .common import HarnessError
            raise HarnessError('reference codec does not round-trip %r' % (v,))
    c = ctx.counters
    ctx.coverage.update({
        'rule': 'complete enumeration of: boundary integers (+-3 of 2^5..2^64, both signs), lengths +-2..3 of '
                '16/32/256/65536 for str/bin/ext/array/map, value trees over a 9-leaf alphabet (depth<=3, see tree_values), '
                'all legal non-minimal forms, all cut points, all byte strings of length <=%d; a case is one value or one '
                'byte string; distinct_nontrivial counts distinct (family,length/format) classes and byte-string outcome classes' % maxlen,
        'max_byte_string_len': maxlen,
        'tree_values': ntree,
        'cut_points': int(c['cut_points']),
        'legal_encodings_decoded': int(c['legal_encodings_decoded']),
        'byte_strings': int(c['byte_strings']),
    })
    ctx.assumptions += [
        'reference codec mc/refmsgpack.py implements the MessagePack spec (ext type byte is a signed int8; str is UTF-8)',
        'map keys restricted to what a Python dict can hold without collision (unhashable/duplicate keys: skipped, counted)',
        'lengths >= 2^32 (4 GiB payloads) are not enumerated',
        'encodings longer than 2 KiB: quick cuts str/bin/ext at header/tail positions and every 257th byte (thorough: all cut points); arrays/maps of ~65536 elements are cut at header, tail and 6 (thorough 64) interior points because each prefix decode is O(prefix)',
        'minimality of supp\'s encodings is counted (nonminimal_encodings_by_supp) but is not part of the property',
    ]


def _dispatch(unit):
    f, arg = unit
    return f(arg)
