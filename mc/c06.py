"""C06 - attribute completion and definition follow Python's lookup order.

E3: all class hierarchies within the bounds (classes, bases among earlier classes and the builtins
object/dict/Exception, linearisable, no repeated ancestor; per class and attribute one of: nothing /
class variable / method / property / self-assignment in __init__ / self-assignment in another method)
x receivers (the class, K(), self, cls, a function returning K(), and three import forms from a
second module).  Reference: the same source executed by CPython: __mro__, vars(c), instance __dict__
after calling every method.
"""
import os
import sys
import shutil
import tempfile
import itertools

from .common import Part, watchdog, Timeout

from supp.assistant import assist, location
from supp.project import Project

KINDS_X = ('none', 'classvar', 'method', 'property', 'init-assign', 'method-assign', 'lazy-assign')
KINDS_X2 = KINDS_X + ('for-assign', 'with-assign', 'property-setter')     # assignment through a for / with target (small hierarchies only)
KINDS_Y = ('none', 'classvar', 'method-assign')
BUILTIN_BASES = ('object', 'dict', 'Exception')


class Hier(object):
    """classes: list of (bases tuple, kind_x, kind_y); bases are ints (earlier classes) or builtin names"""

    def __init__(self, classes, ax='x'):
        self.classes = classes
        self.ax = ax          # name of the first attribute: 'x', or a name the builtin base defines too (keys, args, __eq__)
        self.lines = []
        self.sites = {}      # (class idx, attr) -> ('class'|'inst', (line, col))
        self.alt_sites = {}  # second acceptable position (getter of a property with a setter)
        self.render()

    def emit(self, s):
        self.lines.append(s)
        return len(self.lines)

    def render(self):
        # a source-defined descriptor (the lazy / cached attribute idiom): accessing the attribute runs the function
        self.emit('class Lazy(object):')
        self.emit('    def __init__(self, f):')
        self.emit('        self.f = f')
        self.emit('    def __get__(self, obj, cls):')
        self.emit('        return self.f(obj)')
        self.emit('class CM(object):')
        self.emit('    def __enter__(self):')
        self.emit('        return 0')
        self.emit('    def __exit__(self, *a):')
        self.emit('        return False')
        for i, (bases, kx, ky) in enumerate(self.classes):
            bs = ', '.join('C%d' % b if isinstance(b, int) else b for b in bases)
            self.emit('class C%d(%s):' % (i, bs) if bs else 'class C%d:' % i)
            self.emit('    marker%d = %d' % (i, i))
            init = []
            for attr, k in ((self.ax, kx), ('y', ky)):
                if k == 'classvar':
                    ln = self.emit('    %s = %d' % (attr, i))
                    self.sites[(i, attr)] = ('class', (ln, 4))
                elif k == 'method':
                    ln = self.emit('    def %s(self):' % attr)
                    self.emit('        return %d' % i)
                    self.sites[(i, attr)] = ('class', (ln, 8))
                elif k == 'property':
                    self.emit('    @property')
                    ln = self.emit('    def %s(self):' % attr)
                    self.emit('        return %d' % i)
                    self.sites[(i, attr)] = ('class', (ln, 8))
                elif k == 'property-setter':
                    # a data descriptor: wins over the instance dictionary, `self.x = ..` anywhere goes through the setter
                    self.emit('    @property')
                    self.emit('    def %s(self):' % attr)
                    self.emit('        return %d' % i)
                    self.emit('    @%s.setter' % attr)
                    ln = self.emit('    def %s(self, v):' % attr)
                    self.emit('        self.stored_%s%d = v' % (attr.strip('_'), i))
                    self.sites[(i, attr)] = ('class', (ln, 8))
                    self.alt_sites[(i, attr)] = (ln - 3, 8)
                elif k == 'init-assign':
                    init.append(attr)
                elif k == 'lazy-assign':
                    self.emit('    @Lazy')
                    self.emit('    def lazy_%s%d(self):' % (attr.strip('_'), i))
                    ln = self.emit('        self.%s = %d' % (attr, i))
                    self.emit('        return 0')
                    self.sites[(i, attr)] = ('inst', (ln, 8))
                elif k == 'for-assign':
                    self.emit('    def set_%s%d(self):' % (attr.strip('_'), i))
                    ln = self.emit('        for q, self.%s in [(0, %d)]: pass' % (attr, i))
                    self.sites[(i, attr)] = ('inst', (ln, 15))
                elif k == 'with-assign':
                    self.emit('    def set_%s%d(self):' % (attr.strip('_'), i))
                    ln = self.emit('        with CM() as self.%s: pass' % attr)
                    self.sites[(i, attr)] = ('inst', (ln, 21))
                elif k == 'method-assign':
                    self.emit('    def set_%s%d(self):' % (attr.strip('_'), i))
                    ln = self.emit('        self.%s = %d' % (attr, i))
                    self.sites[(i, attr)] = ('inst', (ln, 8))
            if init:
                self.emit('    def __init__(self):')
                for attr in init:
                    ln = self.emit('        self.%s = %d' % (attr, i))
                    self.sites[(i, attr)] = ('inst', (ln, 8))
        n = len(self.classes) - 1
        self.top = 'C%d' % n
        # receivers inside the module
        self.emit('class Probe(%s):' % self.top)
        self.emit('    def probe(self):')
        self.probe_self = self.emit('        self.%s; self.y' % self.ax)
        self.emit('    @classmethod')
        self.emit('    def cprobe(cls):')
        self.probe_cls = self.emit('        cls.%s; cls.y' % self.ax)
        self.emit('def make():')
        self.emit('    return %s()' % self.top)
        self.recv_class = self.emit('%s.%s; %s.y' % (self.top, self.ax, self.top))
        self.recv_inst = self.emit('%s().%s; %s().y' % (self.top, self.ax, self.top))
        self.recv_func = self.emit('make().%s; make().y' % self.ax)
        self.emit('inst = %s()' % self.top)
        self.recv_var = self.emit('inst.%s; inst.y' % self.ax)
        self.text = '\n'.join(self.lines) + '\n'


def ground_truth(h):
    """-> None if CPython rejects the hierarchy, else dict with mro etc."""
    ns = {}
    try:
        exec(compile(h.text.split('class Probe')[0], '<hier>', 'exec'), ns)
    except TypeError:
        return None       # not linearisable / layout conflict
    K = ns[h.top]
    src = {ns['C%d' % i]: i for i in range(len(h.classes))}
    mro = [src[c] for c in K.__mro__ if c in src]
    if len(set(mro)) != len(mro):
        return None
    # no repeated ancestor: every source class is reachable along exactly one path
    def paths(i):
        n = 0
        for b in h.classes[i][0]:
            if isinstance(b, int):
                n += 1
        return n
    seen = []

    def walk(i):
        seen.append(i)
        for b in h.classes[i][0]:
            if isinstance(b, int):
                walk(b)
    walk(len(h.classes) - 1)
    if len(seen) != len(set(seen)):
        return None
    bb = [b for i in set(seen) for b in h.classes[i][0] if not isinstance(b, int) and b != 'object']
    if len(bb) != len(set(bb)):
        return None
    try:
        inst = K()
    except Exception:
        return None
    called = []
    for c in K.__mro__:
        if c in src:
            for name, f in vars(c).items():
                if type(f).__name__ == 'Lazy':
                    try:
                        getattr(inst, name)
                    except (AttributeError, TypeError):
                        return None      # e.g. assigning a number to Exception.args
                    continue
                if callable(f) and not isinstance(f, property) and name not in (h.ax, 'y') and not name.startswith('__') or name == '__init__' and c in src:
                    try:
                        f(inst)
                        called.append(name)
                    except (AttributeError, TypeError):
                        return None      # assigning through a property / a builtin descriptor: not a hierarchy we ask about
    gt = {'mro': mro, 'class_def': {}, 'inst_sites': {}, 'class_names': set(), 'inst_names': set(inst.__dict__)}
    for attr in (h.ax, 'y'):
        # the FULL method resolution order decides: a builtin base (dict) may stand in front of a source class that defines
        # the attribute too - class C2(C1, C0) with C1(dict): C2, C1, dict, C0, object
        for c in K.__mro__:
            if attr in vars(c):
                if c in src:
                    gt['class_def'][attr] = src[c]
                elif c is not object:
                    gt.setdefault('builtin_first', {})[attr] = c.__name__ + '.' + attr
                break
        gt['inst_sites'][attr] = [h.sites[(i, attr)][1] for i in mro if (i, attr) in h.sites and h.sites[(i, attr)][0] == 'inst']
    for i in mro:
        gt['class_names'] |= {n for n in vars(ns['C%d' % i]) if not n.startswith('__') or n == '__init__'}
    def first_kind(attr):
        i = gt['class_def'].get(attr)
        return None if i is None else h.classes[i][1 if attr == h.ax else 2]
    gt['data_descriptor'] = {attr: first_kind(attr) == 'property-setter' for attr in (h.ax, 'y')}
    # several classes of the MRO assign the attribute in their __init__ and nothing else assigns it: Python runs the __init__ of
    # the first class of the MRO that has one (the generated ones never call super()), so that assignment is THE definition
    gt['inst_exact'] = {}
    first_init = next((i for i in mro if '__init__' in vars(ns['C%d' % i])), None)
    for attr in (h.ax, 'y'):
        kinds = {h.classes[i][1 if attr == h.ax else 2] for i in mro if (i, attr) in h.sites and h.sites[(i, attr)][0] == 'inst'}
        if kinds == {'init-assign'} and first_init is not None and (first_init, attr) in h.sites and h.sites[(first_init, attr)][0] == 'inst':
            gt['inst_exact'][attr] = h.sites[(first_init, attr)][1]
    gt['has_property'] = {attr: any(h.classes[i][1 if attr == h.ax else 2] == 'property' for i in mro) for attr in (h.ax, 'y')}
    return gt


def flat_first(locs, fn):
    if not locs:
        return []
    first = locs[0]
    items = first if isinstance(first, list) else [first]
    return [tuple(x['loc']) for x in items if x.get('file') == fn or str(x.get('file')).endswith('leaf.py')]


def check_hier(h, root, part, imports=False):
    """-> list of (sig, what)"""
    out = []
    gt = ground_truth(h)
    if gt is None:
        part.count('hierarchies_rejected_by_cpython_or_out_of_domain')
        return out
    part.count('hierarchies')
    fn = os.path.join(root, 'hmod.py')
    with open(fn, 'w') as f:
        f.write(h.text)
    P = Project([root])
    seen = set()

    def add(sig, what):
        if sig not in seen:
            seen.add(sig)
            out.append((sig, what + '\n--- hmod.py ---\n' + h.text))

    receivers = [('class', h.recv_class, h.top), ('instance', h.recv_inst, h.top + '()'), ('func-return', h.recv_func, 'make()'),
                 ('variable', h.recv_var, 'inst'), ('self', h.probe_self, 'self'), ('cls', h.probe_cls, 'cls')]
    texts = [(fn, h.text, receivers)]
    if imports:
        for form, pre, recv in (('import-module', 'import hmod\n', 'hmod.%s()' % h.top), ('from-import', 'from hmod import %s\n' % h.top, '%s()' % h.top),
                                ('star-import', 'from hmod import *\n', '%s()' % h.top), ('from-import-func', 'from hmod import make\n', 'make()')):
            t = pre + '%s.%s; %s.y\n' % (recv, h.ax, recv)
            texts.append((os.path.join(root, 'x.py'), t, [('instance-via-' + form, 2, recv)]))
        # the same module three packages deep: import a.b.c / a.b.c.K().x, and a subclass defined in the buffer
        deep = os.path.join(root, 'deep', 'mid')
        os.makedirs(deep, exist_ok=True)
        for d in (os.path.join(root, 'deep'), deep):
            open(os.path.join(d, '__init__.py'), 'w').close()
        with open(os.path.join(deep, 'leaf.py'), 'w') as f:
            f.write(h.text)
        fn_leaf = os.path.join(deep, 'leaf.py')
        r = 'deep.mid.leaf.%s()' % h.top
        texts.append((os.path.join(root, 'x.py'), 'import deep.mid.leaf\n%s.%s; %s.y\n' % (r, h.ax, r), [('instance-via-import-dotted3', 2, r)]))
        texts.append((os.path.join(root, 'x.py'), 'import deep.mid.leaf\nimport deep.mid\nclass Child(deep.mid.leaf.%s):\n    pass\nChild().%s; Child().y\n' % (h.top, h.ax),
                      [('instance-via-subclass-of-dotted3', 5, 'Child()')]))
        texts.append((os.path.join(root, 'x.py'), 'from deep.mid import leaf as lf\nlf.%s().%s; lf.%s().y\n' % (h.top, h.ax, h.top), [('instance-via-from-package-import-module', 2, 'lf.%s()' % h.top)]))
    for tfn, text, recvs in texts:
        line_of = text.split('\n')
        for rname, ln, rexpr in recvs:
            is_inst = rname not in ('class', 'cls')
            line = line_of[ln - 1]
            for attr in (h.ax, 'y'):
                col = line.index(rexpr + '.' + attr) + len(rexpr) + 1
                part.count('receiver_attr_queries')
                # ---- proposals
                try:
                    with watchdog(30):
                        pre, props = assist(P, text, (ln, col), tfn)
                except Timeout:
                    raise
                except Exception:
                    part.count('assist_crashes')
                    props = None
                if props is not None:
                    want = set(gt['class_names'])
                    if is_inst:
                        want |= gt['inst_names']
                    if rname in ('self', 'cls'):
                        want |= set()
                    missing = sorted(want - set(props))
                    if missing:
                        kinds = sorted({kind_of(h, gt, m, is_inst) for m in missing})
                        add('proposals-missing:%s:%s' % (rname.split('-via-')[0] if 'via' in rname else rname, '+'.join(kinds)),
                            'assist after `%s.` (%s) lacks %s which Python finds on the real object (mro %s)' % (rexpr, rname, missing, gt['mro']))
                # ---- definition
                if gt['has_property'][attr] and gt['inst_sites'][attr]:
                    continue
                exp_inst = gt['inst_sites'][attr] if is_inst else []
                exp_cls = gt['class_def'].get(attr)
                if gt['data_descriptor'][attr]:
                    exp_inst = []          # the property of the class is what the lookup finds, whatever was "assigned" through it
                if not exp_inst and exp_cls is None:
                    # Python finds the attribute on a builtin class standing in front of every source class that defines it
                    # (class C2(C1, C0), C1(dict): dict.__repr__ before C0.__repr__): supp must not land on the shadowed source definition
                    shadowed = [h.sites[(i, attr)][1] for i in gt['mro'] if (i, attr) in h.sites and h.sites[(i, attr)][0] == 'class']
                    if shadowed and gt.get('builtin_first', {}).get(attr):
                        try:
                            with watchdog(30):
                                locs = location(P, text, (ln, col + 1), tfn)
                        except Timeout:
                            raise
                        except Exception:
                            part.count('location_crashes')
                            continue
                        part.count('definition_queries')
                        got = flat_first(locs, fn)
                        if got and got[0] in shadowed:
                            add('definition:%s:expected-builtin-definition:got-%s' % (rname.split('-via-')[0] if 'via' in rname else rname, describe(h, got)),
                                'location on `%s.%s` (%s) gives %s; Python finds %s first, the source definition is shadowed (mro %s)' % (
                                    rexpr, attr, rname, got, gt['builtin_first'][attr], gt['mro']))
                    continue
                try:
                    with watchdog(30):
                        locs = location(P, text, (ln, col + 1), tfn)
                except Timeout:
                    raise
                except Exception:
                    part.count('location_crashes')
                    continue
                part.count('definition_queries')
                got = flat_first(locs, fn)
                exact = gt['inst_exact'].get(attr) if exp_inst else None
                if exact is not None and len(exp_inst) > 1 and got and set(got) <= set(exp_inst) and got[:1] != [exact]:
                    add('definition:%s:expected-init-of-first-mro-class:got-%s' % (rname.split('-via-')[0] if 'via' in rname else rname, describe(h, got)),
                        'location on `%s.%s` (%s) gives %s first; only the __init__ of the first class of the MRO runs, which assigns it at %s (mro %s)' % (
                            rexpr, attr, rname, got, exact, gt['mro']))
                if exp_inst:
                    if not got or not set(got) <= set(exp_inst):
                        add('definition:%s:expected-instance-assignment:got-%s' % (rname.split('-via-')[0] if 'via' in rname else rname, describe(h, got)),
                            'location on `%s.%s` (%s) gives %s; Python finds the instance attribute assigned at %s (mro %s)' % (rexpr, attr, rname, got or locs, exp_inst, gt['mro']))
                else:
                    want = h.sites[(exp_cls, attr)][1]
                    if got[:1] != [want] and got[:1] != [h.alt_sites.get((exp_cls, attr))]:
                        add('definition:%s:expected-first-mro-class:got-%s' % (rname.split('-via-')[0] if 'via' in rname else rname, describe(h, got, exp_cls)),
                            'location on `%s.%s` (%s) gives %s; Python selects the definition in C%d at %s (mro %s)' % (rexpr, attr, rname, got or locs, exp_cls, want, gt['mro']))
    return out


def kind_of(h, gt, name, is_inst):
    if name in (h.ax, 'y'):
        ks = set()
        for i in gt['mro']:
            k = h.classes[i][1 if name == h.ax else 2]
            if k != 'none':
                ks.add(k)
        return '|'.join(sorted(ks))
    if name.startswith('set_'):
        return 'method'
    if name.startswith('marker'):
        return 'classvar-of-base'
    return name


def describe(h, got, exp_cls=None):
    if not got:
        return 'nothing'
    for (i, attr), (kind, pos) in h.sites.items():
        if pos == got[0]:
            rel = ''
            if exp_cls is not None:
                rel = '-in-base' if i < exp_cls else ('-in-subclass' if i > exp_cls else '')
            return '%s-site%s' % (kind, rel)
    return 'other-position'


# ------------------------------------------------------------------ enumeration

def base_choices(i, maxb, builtins=BUILTIN_BASES):
    pool = list(range(i)) + list(builtins)
    out = [()]
    for n in range(1, maxb + 1):
        for c in itertools.combinations(pool, n):
            ints = [b for b in c if isinstance(b, int)]
            blt = [b for b in c if not isinstance(b, int)]
            if len(blt) > 1:
                continue
            # source bases first (later classes first), then the builtin one
            out.append(tuple(sorted(ints, reverse=True)) + tuple(blt))
    return out


def hierarchies(nclasses, kinds_x, kinds_y, maxb, builtins=BUILTIN_BASES):
    per_class = [[(b, kx, ky) for b in base_choices(i, maxb, builtins) for kx in kinds_x for ky in kinds_y] for i in range(nclasses)]
    for combo in itertools.product(*per_class):
        # every class below the top must be an ancestor of the top class (otherwise it is a smaller hierarchy)
        reach = set()

        def walk(i):
            reach.add(i)
            for b in combo[i][0]:
                if isinstance(b, int):
                    walk(b)
        walk(nclasses - 1)
        if len(reach) != nclasses:
            continue
        yield combo


def plan(tier):
    if tier == 'quick':
        return [(1, KINDS_X2, KINDS_Y, 1), (2, KINDS_X2, KINDS_Y, 2), (3, KINDS_X, ('none',), 2),
                # four classes: where a definition sits in a two-level, two-base hierarchy (MRO order)
                (4, ('none', 'classvar'), ('none',), 2, ('object',))]
    return [(1, KINDS_X2, KINDS_Y, 1), (2, KINDS_X2, KINDS_Y, 2), (3, KINDS_X, ('none', 'classvar'), 2), (4, ('none', 'classvar', 'method', 'method-assign'), ('none',), 2),
            (5, ('none', 'classvar'), ('none',), 2, ())]


_ENUM = {}


SHADOWING = {'dict': 'keys', 'Exception': 'args', 'object': '__eq__'}


def enum(tier):
    """-> list of (classes, name of the first attribute)"""
    if tier not in _ENUM:
        out = []
        for entry in plan(tier):
            for classes in hierarchies(*entry):
                out.append((classes, 'x'))
                # the same hierarchy with the attribute named like one its builtin base has (an override of dict.keys ...)
                if len(classes) <= 2:
                    blt = {b for c in classes for b in c[0] if not isinstance(b, int)}
                    if len(blt) == 1 and any(c[1] != 'none' for c in classes):
                        out.append((classes, SHADOWING[blt.pop()]))
        # three classes with a builtin base spelled out: a class further right overriding what the builtin base provides
        # (object: the mixin wins, object is last in the MRO; dict: dict.keys wins over a class right of the dict subclass)
        for blt in ('object', 'dict') if tier != 'quick' else ('object',):
            for classes in hierarchies(3, ('none', 'method') if tier == 'quick' else ('none', 'method', 'classvar', 'method-assign'), ('none',), 2, (blt,)):
                if any(blt in c[0] for c in classes) and any(c[1] != 'none' for c in classes):
                    out.append((classes, SHADOWING[blt]))
        # a dunder that the builtin base defines ITSELF (dict.__repr__ is not object.__repr__): a source class right of the dict
        # subclass must not win, a source class left of it must
        for classes in hierarchies(3, ('none', 'method'), ('none',), 2, ('dict',)):
            if any('dict' in c[0] for c in classes) and any(c[1] != 'none' for c in classes):
                out.append((classes, '__repr__'))
        _ENUM[tier] = out
    return _ENUM[tier]


def unit(arg):
    tier, lo, hi = arg
    part = Part()
    root = tempfile.mkdtemp(prefix='c06_')
    try:
        for i, (classes, ax) in enumerate(enum(tier)[lo:hi]):
            h = Hier(list(classes), ax)
            part.count('evaluations')
            imports = ((lo + i) % 5 == 0) or tier != 'quick'
            for sig, what in check_hier(h, root, part, imports=imports):
                part.violation(sig, what, {'kind': 'hier', 'classes': [list(map(lambda b: b, c[0])) + [c[1], c[2]] for c in classes], 'imports': imports, 'ax': ax})
            if (lo + i) % 1500 == 7:
                part.sample({'hierarchy': h.text.split('class Probe')[0]}, limit=2)
    finally:
        shutil.rmtree(root, ignore_errors=True)
    part.outcome(('h', lo, part.counters['hierarchies']))
    return part


PKG_CASES = {
    # a package whose __init__ re-binds the name of a submodule to a member of it (the "one class per file" layout):
    # `from pkgc import Base` is the CLASS for Python (attribute of the package first, submodule only if there is none)
    'init-rebinds-submodule-name': {
        'pkgc/__init__.py': 'from .Base import Base\nfrom . import util\n',
        'pkgc/Base.py': 'class Base(object):\n    def bm(self):\n        self.ba = 1\n',
        'pkgc/util.py': 'def helper():\n    return 1\n',
        'pkgc/only.py': 'class only(object):\n    def om(self):\n        pass\n',
    },
    'init-imports-from-submodule': {
        'pkgd/__init__.py': 'from .mod import K\n',
        'pkgd/mod.py': 'class K(object):\n    def km(self):\n        pass\n',
        'pkgd/sub/__init__.py': 'from pkgd.sub.sib import sv\n',
        'pkgd/sub/sib.py': 'sv = 1\n',
    },
}
PKG_QUERIES = [
    ('from pkgc import Base\nBase().bm\n', (2, 7), {'bm', 'ba'}, ('pkgc/Base.py', (2, 8))),
    ('from pkgc import Base as B2\nB2().bm\n', (2, 5), {'bm', 'ba'}, ('pkgc/Base.py', (2, 8))),
    ('import pkgc\npkgc.Base().bm\n', (2, 12), {'bm', 'ba'}, ('pkgc/Base.py', (2, 8))),
    ('from pkgc import *\nBase().bm\n', (2, 7), {'bm', 'ba'}, ('pkgc/Base.py', (2, 8))),
    ('from pkgc import util\nutil.helper\n', (2, 5), {'helper'}, ('pkgc/util.py', (1, 4))),
    ('from pkgc import only\nonly.only().om\n', (2, 12), {'om'}, ('pkgc/only.py', (2, 8))),       # no attribute of that name: the submodule
    ('from pkgc.Base import Base\nBase().bm\n', (2, 7), {'bm', 'ba'}, ('pkgc/Base.py', (2, 8))),
    # a submodule the package imports itself is an attribute of the package (import side effect)
    ('import pkgc\npkgc.util.helper\n', (2, 9), {'helper'}, ('pkgc/util.py', (1, 4))),
    ('import pkgc\npkgc.Base().bm\n', (2, 12), {'bm', 'ba'}, ('pkgc/Base.py', (2, 8))),
    ('import pkgd\npkgd.mod.K().km\n', (2, 14), {'km'}, ('pkgd/mod.py', (2, 8))),
    ('from pkgd import *\nK().km\n', (2, 4), {'km'}, ('pkgd/mod.py', (2, 8))),
    ('import pkgd.sub\npkgd.sub.sib.sv\n', (2, 13), {'sv'}, ('pkgd/sub/sib.py', (1, 0))),
]


def check_packages(part):
    out = []
    root = tempfile.mkdtemp(prefix='c06p_')
    try:
        for files in PKG_CASES.values():
            for rel, content in files.items():
                p = os.path.join(root, rel)
                os.makedirs(os.path.dirname(p), exist_ok=True)
                open(p, 'w').write(content)
        P = Project([root])
        fn = os.path.join(root, 'x.py')
        for text, cur, want, (dfile, dpos) in PKG_QUERIES:
            part.count('receiver_attr_queries')
            line = text.split('\n')[cur[0] - 1]
            dot = line.rindex('.') + 1
            try:
                _pre, props = assist(P, text, (cur[0], dot), fn)
                missing = sorted(want - set(props))
                if missing:
                    out.append(('package-member:proposals-missing', 'assist in `%s` lacks %s (Python resolves the name to the package attribute first)' % (line, missing)))
                locs = location(P, text, (cur[0], len(line)), fn)
                got = flat_any(locs)
                if (os.path.join(root, dfile), dpos) not in got:
                    out.append(('package-member:definition', 'location on `%s` gives %s, expected %s %s' % (line, [(f.replace(root, ''), p) for f, p in got], dfile, dpos)))
            except Exception as e:
                part.count('assist_crashes')
    finally:
        shutil.rmtree(root, ignore_errors=True)
    return out


def flat_any(locs):
    out = []
    for l in locs:
        for x in (l if isinstance(l, list) else [l]):
            out.append((x.get('file'), tuple(x['loc'])))
    return out


def unit_packages(_):
    part = Part()
    part.count('evaluations')
    for sig, what in check_packages(part):
        part.violation(sig, what, {'kind': 'packages'})
    part.outcome('packages')
    return part


def replay(w):
    if w.get('kind') == 'packages':
        return check_packages(Part())
    classes = [(tuple(c[:-2]), c[-2], c[-1]) for c in w['classes']]
    root = tempfile.mkdtemp(prefix='c06r_')
    try:
        return check_hier(Hier(classes, w.get('ax', 'x')), root, Part(), imports=w.get('imports', True))
    finally:
        shutil.rmtree(root, ignore_errors=True)


def run(ctx):
    ctx.level = 'exploration'
    n = len(enum(ctx.tier))
    step = 60
    units = [(ctx.tier, lo, min(n, lo + step)) for lo in range(0, n, step)]
    ctx.pmap(unit, ctx.shuffled(units), chunksize=1)
    ctx.merge(unit_packages(None))
    c = ctx.counters
    ctx.counters['distinct_nontrivial'] = int(c['hierarchies'])
    ctx.coverage.update({
        'rule': 'every hierarchy of the plan %s (classes, kinds of x, kinds of y, max bases) whose classes are all ancestors of the top class and that CPython accepts, '
                'x 6 receivers (+4 import forms on every 5th hierarchy on quick, all on thorough) x attributes x,y; distinct_nontrivial = hierarchies compared' % (plan(ctx.tier),),
        'enumerated': n,
        'hierarchies': int(c['hierarchies']),
        'receiver_attr_queries': int(c['receiver_attr_queries']),
        'definition_queries': int(c['definition_queries']),
    })
    ctx.assumptions += [
        'CPython (__mro__, vars(), instance __dict__ after calling every method) is the reference; only source-defined attributes are asked for',
        'hierarchies where a property and a self-assignment of the same attribute meet are not asked for that attribute (the assignment raises at run time)',
        'crashes of assist/location are counted and left to C08',
    ]
