"""E1 - stateless choice-sequence explorer (replay from the start, deviation-bounded DFS).

A *run* is a deterministic function of a list of integers.  The harness body calls
``ch.choose(n, cost, label)`` wherever the environment has ``n`` possible answers; the
chooser answers from the forced prefix and with 0 (the default answer) after it.

``cost`` is what taking a NON-default answer at that point adds to the deviation count
(thread engine: 1 if the running thread is still enabled = a preemption, else 0;
environment engine: 1 for a fault; program decisions / set orders: 0 = explored completely).
"""
from .common import HarnessError


class Divergence(HarnessError):
    pass


class Chooser(object):
    def __init__(self, prefix=()):
        self.prefix = list(prefix)
        self.trace = []   # (choice, n, cost, label)

    def choose(self, n, cost=0, label=None):
        if n <= 0:
            raise HarnessError('choose(%r)' % n)
        i = len(self.trace)
        c = self.prefix[i] if i < len(self.prefix) else 0
        if c >= n:
            raise Divergence('replay divergence at point %d: forced %d but only %d answers (%r)' % (i, c, n, label))
        self.trace.append((c, n, cost, label))
        return c

    @property
    def choices(self):
        return [t[0] for t in self.trace]

    def deviations(self):
        return sum(t[2] for t in self.trace if t[0] != 0)


class Execution(object):
    __slots__ = ('choices', 'trace', 'obs', 'deviations')

    def __init__(self, ch, obs):
        self.choices = ch.choices
        self.trace = ch.trace
        self.obs = obs
        self.deviations = ch.deviations()


def run_once(body, prefix):
    ch = Chooser(prefix)
    obs = body(ch)
    if len(ch.trace) < len(ch.prefix):
        raise Divergence('replay divergence: forced prefix of %d points, run consumed only %d' % (len(ch.prefix), len(ch.trace)))
    return Execution(ch, obs)


def children(x, start, bound):
    """Prefixes of the sub-executions branching off execution x at points >= start."""
    dev = 0
    out = []
    for i, (c, n, cost, _label) in enumerate(x.trace):
        if i >= start:
            if bound is None or dev + cost <= bound:
                for alt in range(1, n):
                    out.append(x.choices[:i] + [alt])
        if c != 0:
            dev += cost
    return out


def explore(body, bound=None, prefix=(), on_exec=None, max_exec=None, order=None):
    """DFS over all choice sequences extending ``prefix`` with at most ``bound`` deviations.

    Returns (executions, leftover): leftover is the list of unexplored subtree prefixes when
    max_exec stopped the search early (each is explored by calling explore(prefix=p) again,
    which is how the work is spread over a process pool), else [].
    on_exec(x) is called for every execution.
    """
    stack = [list(prefix)]
    n = 0
    while stack:
        p = stack.pop()
        x = run_once(body, p)
        n += 1
        if on_exec:
            on_exec(x)
        kids = children(x, len(p), bound)
        if order:
            order(kids)
        stack.extend(reversed(kids))
        if max_exec and n >= max_exec and stack:
            return n, stack
    return n, []


def self_test(body, choices_list, same=lambda a, b: a == b):
    """Replaying a recorded choice list must give identical points and observations."""
    for ch in choices_list:
        a = run_once(body, ch)
        b = run_once(body, ch)
        if a.trace != b.trace or not same(a.obs, b.obs):
            raise HarnessError('non-deterministic replay of %r:\n %r\n %r' % (ch, (a.trace, a.obs), (b.trace, b.obs)))


def explore_stateful(body, on_exec=None, max_exec=None, prefix=()):
    """Stateless re-execution with state matching: the label of every choice point must end with a
    hashable STATE KEY that determines the future of the run; an alternative is explored only if the
    pair (state, alternative) has not been taken before.  No deviation bound.

    Returns (executions, distinct (state, choice) pairs, leftover stack)."""
    seen = set()
    stack = [list(prefix)]
    n = 0
    while stack:
        p = stack.pop()
        x = run_once(body, p)
        n += 1
        if on_exec:
            on_exec(x)
        for i in range(len(x.trace)):
            c, k, _cost, label = x.trace[i]
            st = label[-1][-1] if isinstance(label[-1], tuple) else label[-1]
            seen.add((st, c))
            if i < len(p):
                continue
            for alt in range(1, k):
                if (st, alt) not in seen:
                    seen.add((st, alt))
                    stack.append(x.choices[:i] + [alt])
        if max_exec and n >= max_exec and stack:
            return n, len(seen), stack
    return n, len(seen), []
