"""C08 - the API is total: every text and cursor position gets an answer.

E3: texts = generated programs (core + every feature) + typing-state mutations of them + degenerate
texts + cyclic projects + repository/stdlib files; cursors = EVERY (line, col) of generated texts and
small repository files, every token start/end of larger files.
Oracle: lint returns a list, with exactly one E01 carrying CPython's message/line/offset iff ast.parse
raises SyntaxError; assist returns (str, list[str]); location returns a list of {loc, file} (or lists
of them); the only exception allowed is SyntaxError and only if the cursor-marked text does not parse;
every call ends within the watchdog.
"""
import ast
import io
import os
import sys
import shutil
import tempfile
import tokenize
import traceback

from .common import Part, watchdog, Timeout, REPO, reset_global_memo
from . import corpus
from . import progspace as ps
from . import names_run
from . import namecheck as nc

import supp
import supp.scope
from supp.linter import lint
from supp.assistant import assist, location
from supp.project import Project
from supp.util import Source

SUPP_DIR = os.path.dirname(supp.__file__)
WATCHDOG = 20


def frame_of(exc):
    """innermost supp frame file:function of the traceback"""
    last = None
    for fs in traceback.extract_tb(exc.__traceback__):
        if fs.filename.startswith(SUPP_DIR):
            last = '%s:%s' % (os.path.basename(fs.filename), fs.name)
    return last or 'outside-supp'


MARK = '__supp_mark__'


def mark(text, pos):
    """the cursor-marked text, built independently of supp: lines are what CPython counts as lines (\\n, \\r\\n, \\r)"""
    import re
    parts = re.split('(\r\n|\r|\n)', text)
    lines = parts[0::2]
    seps = parts[1::2] + ['']
    ln, col = pos
    while ln > len(lines):
        seps[-1] = seps[-1] or '\n'
        lines.append('')
        seps.append('')
    lines[ln - 1] = lines[ln - 1][:col] + MARK + lines[ln - 1][col:]
    return ''.join(l + s for l, s in zip(lines, seps))


def marked_parses(text, fn, pos):
    src = mark(text, pos)
    try:
        ast.parse(src, fn or "<unknown>")
        return True
    except SyntaxError:
        return False
    except (ValueError, RecursionError, MemoryError):
        return False


def well_formed_assist(r):
    return (isinstance(r, tuple) and len(r) == 2 and isinstance(r[0], str) and isinstance(r[1], list)
            and all(isinstance(x, str) for x in r[1]))


def well_formed_loc(r):
    def one(x):
        return (isinstance(x, dict) and set(x) == {'loc', 'file'} and isinstance(x['loc'], tuple) and len(x['loc']) == 2
                and all(isinstance(i, int) for i in x['loc']) and (x['file'] is None or isinstance(x['file'], str)))
    if not isinstance(r, list):
        return False
    for x in r:
        if isinstance(x, list):
            if not all(one(y) for y in x):
                return False
        elif not one(x):
            return False
    return True


def check_lint(P, text, fn, label, part):
    out = []
    part.count('lint_calls')
    try:
        ast.parse(text, fn or "<unknown>")
        err = None
    except SyntaxError as e:
        err = e
    except (ValueError, RecursionError, MemoryError) as e:
        part.count('texts_cpython_cannot_parse_for_other_reasons')
        return out
    try:
        with watchdog(WATCHDOG):
            L = lint(P, text, fn)
    except Timeout:
        return [('lint:no-termination', '%s: lint does not return within %d s' % (label, WATCHDOG))]
    except RecursionError as e:
        return [('lint:raises:RecursionError:%s' % frame_of(e), '%s: lint raises RecursionError' % label)]
    except Exception as e:
        return [('lint:raises:%s:%s' % (type(e).__name__, frame_of(e)), '%s: lint raises %s: %s' % (label, type(e).__name__, str(e)[:100]))]
    if not isinstance(L, list):
        return [('lint:malformed-result', '%s: lint returned %r' % (label, type(L)))]
    e01 = [x for x in L if x[0] == 'E01']
    if err is None:
        if e01:
            out.append(('lint:E01-on-valid-text', '%s: lint reports %r but the text parses' % (label, e01[0][:4])))
    else:
        if len(L) != 1 or len(e01) != 1:
            out.append(('lint:syntax-error-not-single-E01', '%s: text does not parse (%s) but lint returns %r' % (label, err.msg, [x[:4] for x in L][:3])))
        else:
            x = e01[0]
            if (x[1], x[2], x[3]) != (err.msg, err.lineno, err.offset):
                out.append(('lint:E01-differs-from-cpython', '%s: E01 is %r, CPython says %r' % (label, x[1:4], (err.msg, err.lineno, err.offset))))
    return out


def check_cursor(P, text, fn, pos, label, part):
    out = []
    parses = None
    for ename, func, wf in (('assist', assist, well_formed_assist), ('location', location, well_formed_loc)):
        part.count('cursor_calls')
        try:
            with watchdog(WATCHDOG):
                r = func(P, text, pos, fn)
        except Timeout:
            out.append(('%s:no-termination' % ename, '%s: %s at %s does not return within %d s' % (label, ename, pos, WATCHDOG)))
            continue
        except SyntaxError as e:
            if parses is None:
                parses = marked_parses(text, fn, pos)
            if parses:
                out.append(('%s:SyntaxError-on-parsable-marked-text:%s' % (ename, frame_of(e)), '%s: %s at %s raises SyntaxError(%s) although the marked text parses' % (label, ename, pos, e.msg)))
            else:
                part.count('cursor_syntax_errors_allowed')
            continue
        except RecursionError as e:
            out.append(('%s:raises:RecursionError:%s' % (ename, frame_of(e)), '%s: %s at %s raises RecursionError' % (label, ename, pos)))
            continue
        except Exception as e:
            out.append(('%s:raises:%s:%s' % (ename, type(e).__name__, frame_of(e)), '%s: %s at %s raises %s: %s' % (label, ename, pos, type(e).__name__, str(e)[:100])))
            continue
        if not wf(r):
            out.append(('%s:malformed-result' % ename, '%s: %s at %s returned %r' % (label, ename, pos, r if len(repr(r)) < 200 else type(r))))
    return out


def all_cursors(text):
    lines = text.split('\n')
    for i, l in enumerate(lines):
        for c in range(len(l) + 1):
            yield (i + 1, c)


def token_cursors(text):
    seen = set()
    try:
        for t in tokenize.generate_tokens(io.StringIO(text).readline):
            if t.type in (tokenize.NAME, tokenize.OP, tokenize.NUMBER, tokenize.STRING):
                for p in (t.start, t.end):
                    if p not in seen:
                        seen.add(p)
                        yield p
    except (tokenize.TokenError, IndentationError, SyntaxError):
        return


def typing_states(text):
    """(label, text, cursors) mutations of a valid text that a user passes through while typing"""
    lines = text.rstrip('\n').split('\n')
    for i, l in enumerate(lines):
        body = l.strip()
        if not body:
            continue
        # line + '.'
        t = '\n'.join(lines[:i] + [l + '.'] + lines[i + 1:]) + '\n'
        yield 'trailing-dot', t, [(i + 1, len(l) + 1)]
        # line deleted
        t = '\n'.join(lines[:i] + lines[i + 1:]) + '\n'
        yield 'line-deleted', t, [(min(i + 1, len(lines) - 1) or 1, 0)]
        # file cut after the line
        t = '\n'.join(lines[:i + 1])
        yield 'file-cut', t, [(i + 1, len(l))]
        # line cut at every column (cursor at the cut)
        for c in range(len(l) - len(l.lstrip()) + 1, len(l)):
            t = '\n'.join(lines[:i] + [l[:c]] + lines[i + 1:]) + '\n'
            yield 'line-cut', t, [(i + 1, c)]


DEGENERATE = [
    ('empty', ''), ('newline', '\n'), ('spaces', '   '), ('spaces-nl', '   \n\n'), ('comment', '# x'), ('comment-nl', '# x\n'),
    ('crlf', 'a = 1\r\nb = a\r\nb\r\n'), ('cr', 'a = 1\rb = a\r'), ('tab-indent', 'if 1:\n\ta = 1\n\ta\n'), ('mixed-indent', 'if 1:\n\ta = 1\n        a\n'),
    ('formfeed-in-string', 'a = "x\x0cy"\nb = a\nb\n'), ('formfeed-after-code', 'a = 1\x0c\nb = a\nb\n'), ('formfeed-lines', 'a = 1\n\x0c\nb = a\n\x0c\nb\n'),
    ('fs-in-string', 'a = "x\x1cy\x1dz\x1ew"\nb = a\nb\n'), ('nel-ls-ps-in-comment', 'a = 1  # \x85 \u2028 \u2029\nb = a\nb\n'), ('ls-in-string', 'a = "\u2028"; b = a\nb\n'),
    ('vt-in-string', 'a = "x\x0by"\nb = a\nb\n'),
    ('form-feed', 'a = 1\n\x0c\nb = a\n'), ('surrogate', 'a = "\udcff"\na\n'), ('nul', 'a = 1\x00\na\n'), ('bom', '\ufeffa = 1\na\n'),
    ('non-ascii-ident', 'caf\u00e9 = 1\ncaf\u00e9\n'), ('non-ascii-str', 'a = "\u00e9\u00e9"; a\na\n'), ('wide-char', 'a = "\U0001F600"; b = a\nb\n'),
    ('unterminated-string', 'a = "abc\n'), ('unterminated-triple', 'a = """abc\n'), ('unclosed-paren', 'f(a,\n'), ('only-dot', '.'), ('only-at', '@'),
    ('bad-indent', '  a = 1\nb = 2\n'), ('dedent-mismatch', 'if 1:\n    a\n  b\n'), ('return-module', 'return 1\n'), ('return-class', 'class A:\n    return 1\n'),
    ('yield-module', 'yield 1\n'), ('yield-class', 'class A:\n    yield 1\n'), ('break-module', 'break\n'), ('continue-module', 'continue\n'),
    ('break-in-def', 'def f():\n    break\n'), ('await-module', 'await x\n'), ('nonlocal-module', 'nonlocal x\n'), ('global-after-use', 'def f():\n    x = 1\n    global x\n'),
    ('return-in-lambda-like', 'f = lambda: (yield)\nf\n'), ('star-target', '*a, = [1]\na\n'), ('del', 'a = 1\ndel a\na\n'),
    ('for-attr-target', 'class A:\n    def f(self, xs):\n        for self.x in xs:\n            pass\n        self.x\n'),
    ('with-subscript-target', 'b = [0]\nwith open("f") as b[0]:\n    pass\nb\n'),
    ('comp-attr-target', 'class A: pass\na = A()\n[0 for a.x in [1]]\na\n'), ('for-subscript-target', 'd = {}\nfor d["k"] in [1]:\n    pass\nd\n'),
    ('with-attr-target', 'class A: pass\na = A()\nwith open("f") as a.f:\n    pass\na.f\n'),
    ('nested-def-deep', 'def a():\n def b():\n  def c():\n   def d():\n    return a, b, c, d\n'),
    ('locals-conditional', 'def f(c):\n    if c:\n        locals = 1\n    return locals()\n'), ('locals-rebound', 'locals = dict\nlocals()\n'),
    ('match', 'match x:\n    case 1:\n        y = 1\n    case [a, b]:\n        y = a\ny\n'), ('type-params', 'def f[T](x: T) -> T:\n    return x\nf\n'),
    ('except-star', 'try:\n    pass\nexcept* ValueError as e:\n    e\n'), ('walrus-comp', '[y := 1, y]\ny\n'),
    ('starred-nested-target', 'a, *(b, c) = 1, 2, 3\nb\nfor x, *(y, z) in [(1, 2, 3)]:\n    y\n'), ('starred-attr-target', 'class A: pass\no = A()\no.a, *o.b = 1, 2\no.b\n'),
    ('conditional-base', 'import os\nif os:\n    B = object\nelse:\n    B = dict\nclass A(B):\n    def f(self):\n        self.q = 1\nA().x\nA.y\nA().f\n'),
    ('conditional-class', 'import os\nif os:\n    class A:\n        p = 1\nelse:\n    class A:\n        q = 2\nA().p\nA.q\nclass C(A): pass\nC().p\n'),
    ('conditional-func', 'import os\nif os:\n    def f(): return 1\nelse:\n    f = len\nf().real\nf.x\n'),
    ('type-comment-signature', 'def f(a, b):\n    # type: (int, str) -> bool\n    return a\nx = []  # type: list[int]\nf\n'),
    ('type-comment-prose', 'x = 1\nif x:\n    # type: 0 is a circle, 1 is a square\n    y = 2\ny\n'),
    ('type-comment-orphan', '    # type: (int) -> int\nx = 1\n# type: ignore\nx\n'),
    ('type-comment-in-call', 'f = print\nf(1,  # type: int\n  2)\nf\n'),
    ('builtin-cursor', 'len\nprint\nTrue\n__name__\n'), ('super-call', 'class A(dict):\n    def f(self):\n        super().f\n        super(A, self).g\nsuper().x\n'),
    ('runtime-class-calls', 'import collections, threading, io\ncollections.OrderedDict().keys\nthreading.Thread().start\nio.StringIO().read\nmemoryview().x\nproperty().fget\nrange().start\nslice().x\ntype().x\n'), ('literal-attr', '"".join\n(1).real\n[].append\n{}.get\n'),
    ('compiled-module', 'import itertools, math, sys\nitertools.chain\nmath.pi\nsys.path\n'),
    ('unknown-module', 'import nonexist\nnonexist.x\nfrom nonexist import y\ny\nfrom nonexist.sub import z\n'),
    ('half-import', 'import \n'), ('half-from', 'from \n'), ('half-from-import', 'from os import \n'), ('from-dot', 'from . import x\nx\n'),
    ('from-dots-beyond', 'from ... import x\nfrom ...a.b import y\nx, y\n'), ('import-self', 'import x\nx.x\n'),
    ('assign-cycle', 'a = b\nb = a\na\nb\na.x\n'), ('self-assign-cycle', 'class A:\n    def f(self):\n        self.a = self.b\n        self.b = self.a\n        self.a\n        self.b.c\n'),
    ('inherit-cycle', 'class A(B): pass\nclass B(A): pass\nA().x\nB.y\n'), ('inherit-self', 'class A(A): pass\nA().x\n'),
    ('recursive-func', 'def f():\n    return f()\nf().x\ndef g():\n    return h()\ndef h():\n    return g()\ng().y\n'),
    ('call-chain', 'def f():\n    return f\nf()()()().x\n'), ('attr-of-attr-cycle', 'class A:\n    pass\nA.a = A\nA.a.a.a\n'),
    ('property-cycle', 'class A:\n    @property\n    def p(self):\n        return self.p\nA().p.x\n'),
    ('deep-expr', 'a = ' + '(' * 60 + '1' + ')' * 60 + '\na\n'), ('long-attr-chain', 'a = 1\na' + '.real' * 80 + '\n'),
    ('many-branches', ''.join('if x%d:\n    v = %d\n' % (i, i) for i in range(40)) + 'v\n'),
]


# starred targets in every position the parser accepts (the compiler proper rejects some of them: typing states of `*a, = x`)
for _i, _t in enumerate(['*rest = items\nrest\n', '*a, b = *c, d = [1, 2]\na\nc\n', 'for *a in [[1]]:\n    a\n', '[a for *a in [[1]]]\n', 'with open("f") as *a:\n    a\n',
                         '(*a), b = 1, 2\na\n', '*a.b = [1]\n', '*a[0] = [1]\n', '[*a] = [1]\na\n', 'a = [*b] = *c, = [1]\nc\n', 'for x, *self.r in []: pass\n',
                         'def f(*, a): return a\nf\n', 'x = *a, *b\nx\n', 'print(*a, **b)\n', '*a: int = 1\n']):
    DEGENERATE.append(('starred-%d' % _i, _t))

# a class statement whose base expression evaluates to something that is not a class: every kind of value supp computes
_PRELUDE = (
    'import os, sys\n'
    'class K(object):\n    attr = 1\n    def km(self):\n        self.kv = 1\n        return self\n'
    'def func():\n    return 1\n'
    'def cond_func():\n    if os:\n        r = 1\n    else:\n        r = "a"\n    return r\n'
    'def class_func():\n    if os:\n        return K\n    return dict\n'
    'try:\n    from collections import OrderedDict as Impl\nexcept ImportError:\n    Impl = dict\n'
    'if sys:\n    Nested = Impl\nelse:\n    Nested = object\n'
    'if os:\n    Deep = Nested\nelif sys:\n    Deep = K\nelse:\n    Deep = func\n'
    'for Loop in [K, dict]:\n    pass\n'
    'inst = K()\n'
)
_BASES = ['func', 'cond_func', 'class_func', 'class_func()', 'cond_func()', 'Impl', 'Nested', 'Deep', 'Loop', 'inst', 'inst.km', 'inst.km()', 'K.attr', 'K()', 'os', 'os.path',
          'os.getcwd', 'os.getcwd()', 'lambda: 0', '1', '"s"', 'None', '[K]', '{}', '[q for q in ()]', 'K if os else dict', 'Nested if os else Deep', 'Undefined', 'K, Nested',
          'Nested, Deep', 'type', 'type(K)', 'type("T", (), {})', 'len', 'super', 'property', 'sys.modules', '*[K]', 'metaclass=Deep', 'K, metaclass=cond_func']
for _b in _BASES:
    DEGENERATE.append(('base:' + _b, _PRELUDE + 'class C(%s):\n    own = 1\n    def m(self):\n        self.v = 1\n        self.v\n        self.km\nC().m\nC.own\nC().kv\nclass D(C): pass\nD().m().v\n' % _b))


# long runs of statements: every region costs stack depth when the name tables are built (known finding F-deepchain),
# deeply nested for loops: every level multiplies the work of resolving the back edges (known finding F-nestedloops)
DEGENERATE.append(('long-chain-try-100', 'def f():\n' + ''.join('    try:\n        a%d = 1\n    except E:\n        pass\n' % i for i in range(100)) + '    return a0\n'))
DEGENERATE.append(('long-chain-if-300', ''.join('if c%d:\n    v = %d\n' % (i, i) for i in range(300)) + 'v\n'))
DEGENERATE.append(('long-chain-elif-400', 'if c:\n    v = 0\n' + ''.join('elif c%d:\n    v = %d\n' % (i, i) for i in range(400)) + 'v\n'))
DEGENERATE.append(('nested-for-9', 'x = 0\n' + ''.join('    ' * i + 'for i%d in r:\n' % i for i in range(9)) + '    ' * 9 + 'x = x + 1\nx\n'))
DEGENERATE.append(('nested-for-5', 'x = 0\n' + ''.join('    ' * i + 'for i%d in r:\n' % i for i in range(5)) + '    ' * 5 + 'x = x + 1\nx\n'))
DEGENERATE.append(('nested-while-6', 'x = 0\n' + ''.join('    ' * i + 'while x < %d:\n' % i for i in range(6)) + '    ' * 6 + 'x = x + 1\nx\n'))


CYCLIC_PROJECTS = {
    'star-import-cycle': {'pa.py': 'from pb import *\nva = 1\n', 'pb.py': 'from pa import *\nvb = 1\n',
                          'x': 'from pa import *\nva\nvb\nimport pa\npa.vb\n'},
    'from-import-cycle': {'pa.py': 'from pb import vb\nva = vb\n', 'pb.py': 'from pa import va\nvb = va\n',
                          'x': 'from pa import va\nva\nva.x\nimport pb\npb.vb.y\n'},
    'inherit-cycle-across-modules': {'pa.py': 'from pb import B\nclass A(B):\n    def fa(self): pass\n', 'pb.py': 'import pa\nclass B(pa.A):\n    def fb(self): pass\n',
                                     'x': 'from pa import A\nA().fb\nA().\nimport pb\npb.B().fa\n'},
    'from-import-pure-cycle': {'pa.py': 'from pb import x\n', 'pb.py': 'from pa import x\n', 'x': 'from pa import x\nx\nx.y\nimport pa\npa.x\n'},
    'from-import-alias-cycle': {'pa.py': 'from pb import y as x\n', 'pb.py': 'from pa import x as y\nclass K(y): pass\n', 'x': 'from pa import x\nx\nx.y\nfrom pb import K\nK().z\n'},
    'module-imports-itself': {'pa.py': 'import pa\nfrom pa import *\nv = pa.v\n', 'x': 'import pa\npa.v\npa.pa.pa.v\nfrom pa import v\nv.x\n'},
    'package-init-cycle': {'pk2/__init__.py': 'from .m import *\nfrom . import m\n', 'pk2/m.py': 'from . import *\nfrom pk2 import m\nw = 1\n',
                           'x': 'import pk2\npk2.m.w\nfrom pk2 import *\nw\nm\n'},
    'relative-beyond-top': {'pk3/__init__.py': '', 'pk3/m.py': 'from .. import z\nfrom ... import y\nfrom ..q import r\nz\n',
                            'x': 'import pk3.m\npk3.m.z\nfrom pk3.m import r\nr\n'},
}


# ------------------------------------------------------------------ units

def run_text(P, text, fn, label, part, cursors, wit):
    out = []
    seen = set()
    # the builtin scope is a process-global memo (RuntimeName._instance ...): every text starts from a fresh one,
    # otherwise a failure may depend on what this worker analysed before and not reproduce on replay
    reset_global_memo()
    for sig, what in check_lint(P, text, fn, label, part):
        if sig not in seen:
            seen.add(sig)
            out.append((sig, what + '\n--- source ---\n' + text[:1500], dict(wit, pos=None)))
    for pos in cursors:
        for sig, what in check_cursor(P, text, fn, pos, label, part):
            if sig not in seen:
                seen.add(sig)
                out.append((sig, what + '\n--- source ---\n' + text[:1500], dict(wit, pos=list(pos))))
    return out


_SP = {}


def space(tier):
    if tier in _SP:
        return _SP[tier]
    progs = [p for p in ps.programs(3, 2, ctl=True)]
    if tier == 'quick':
        progs = progs[::5]
    progs += list(names_run.feature_programs(1))
    _SP[tier] = progs
    return progs


def unit_progs(arg):
    tier, lo, hi = arg
    part = Part()
    P = Project([nc.PROJECT_DIR])
    for i, prog in enumerate(space(tier)[lo:hi]):
        text = ps.render(prog, 'plain').text
        part.count('evaluations')
        part.count('texts')
        for sig, what, wit in run_text(P, text, nc.FILE, 'generated program', part, list(all_cursors(text)), {'kind': 'text', 'text': text, 'fn': nc.FILE, 'root': nc.PROJECT_DIR}):
            part.violation(sig, what, wit)
        # typing states of this program
        if (lo + i) % (6 if tier == 'quick' else 1) == 0:
            for label, t, cursors in typing_states(text):
                part.count('evaluations')
                part.count('typing_state_texts')
                for sig, what, wit in run_text(P, t, nc.FILE, 'typing state ' + label, part, cursors, {'kind': 'text', 'text': t, 'fn': nc.FILE, 'root': nc.PROJECT_DIR}):
                    part.violation(sig, what, wit)
    part.outcome(('progs', lo, part.counters['cursor_calls']))
    return part


def unit_degenerate(item):
    label, text = item
    part = Part()
    P = Project([nc.PROJECT_DIR])
    part.count('evaluations')
    part.count('texts')
    cursors = list(all_cursors(text))
    if len(cursors) > 600:
        cursors = cursors[::max(1, len(cursors) // 600)]
    coarse = None
    if label.startswith('long-chain-'):
        cursors, coarse = cursors[-1:], ('RecursionError', 'long-statement-chain')
    elif label.startswith(('nested-for-', 'nested-while-')) and int(label.split('-')[-1]) >= 8:
        cursors, coarse = [], ('no-termination', 'deeply-nested-loops')      # lint only: every call costs a full watchdog period
    for sig, what, wit in run_text(P, text, nc.FILE, 'degenerate text ' + label, part, cursors, {'kind': 'text', 'text': text, 'fn': nc.FILE, 'root': nc.PROJECT_DIR}):
        if coarse and coarse[0] in sig:
            # one cause, many places where it surfaces: the signature names the cause
            sig = '%s:%s:%s' % (sig.split(':')[0], coarse[0], coarse[1])
            wit = dict(wit, coarse=list(coarse))
        part.violation(sig, what, wit)
    for tl, t, cur in (typing_states(text) if len(text) < 400 and not coarse else ()):
        for sig, what, wit in run_text(P, t, nc.FILE, 'degenerate %s / %s' % (label, tl), part, cur, {'kind': 'text', 'text': t, 'fn': nc.FILE, 'root': nc.PROJECT_DIR}):
            part.violation(sig, what, wit)
    part.outcome(('degenerate', label))
    part.sample({'kind': 'degenerate text', 'label': label, 'text': text[:200]}, limit=2)
    return part


NOFILE_TEXTS = ['from . import x\nx\n', 'from .m import y\ny.a\n', 'from .. import z\nz\n', 'from ...a.b import w\nw\n', 'from . import (\n', 'from .\n',
                'import os\nfrom .sub.mod import *\nos\n', 'def f():\n    from . import q\n    return q\n']


def unit_nofile(_):
    """relative imports analysed without a file name (the default of the API), with an empty and with a relative file name,
    from a current directory that is itself a package (holds an __init__.py)"""
    part = Part()
    root = tempfile.mkdtemp(prefix='c08n_')
    old = os.getcwd()
    try:
        open(os.path.join(root, '__init__.py'), 'w').close()
        os.makedirs(os.path.join(root, 'sub'))
        open(os.path.join(root, 'sub', '__init__.py'), 'w').close()
        open(os.path.join(root, 'm.py'), 'w').write('y = 1\n')
        os.chdir(root)
        for fn in (None, '', 'x.py', 'sub/x.py', './x.py'):
            P = Project([root])
            for i, text in enumerate(NOFILE_TEXTS):
                part.count('evaluations')
                part.count('texts')
                cursors = list(all_cursors(text))
                for sig, what, wit in run_text(P, text, fn, 'relative import with file name %r' % (fn,), part, cursors, {'kind': 'nofile', 'text': text, 'fn': fn}):
                    part.violation(sig + ':no-or-relative-filename', what, wit)
    finally:
        os.chdir(old)
        shutil.rmtree(root, ignore_errors=True)
    part.outcome('nofile')
    return part


def make_project(files):
    root = tempfile.mkdtemp(prefix='c08_')
    for rel, content in files.items():
        if rel == 'x':
            continue
        p = os.path.join(root, rel)
        os.makedirs(os.path.dirname(p), exist_ok=True)
        with open(p, 'w') as f:
            f.write(content)
    return root


def unit_project(name):
    part = Part()
    files = CYCLIC_PROJECTS[name]
    root = make_project(files)
    try:
        P = Project([root])
        part.count('evaluations')
        part.count('cyclic_projects')
        fn = os.path.join(root, 'x.py')
        text = files['x']
        for sig, what, wit in run_text(P, text, fn, 'cyclic project ' + name, part, list(all_cursors(text)), {'kind': 'project', 'name': name}):
            part.violation(sig + ':' + name, what, wit)
        # and every project file itself as the edited buffer
        for rel, content in files.items():
            if rel == 'x':
                continue
            fn2 = os.path.join(root, rel)
            for sig, what, wit in run_text(P, content, fn2, 'cyclic project %s file %s' % (name, rel), part, list(all_cursors(content)), {'kind': 'project', 'name': name}):
                part.violation(sig + ':' + name, what, wit)
    finally:
        shutil.rmtree(root, ignore_errors=True)
    part.outcome(('project', name))
    return part


def unit_file(arg):
    path, mode, chunk, nchunks = arg
    part = Part()
    try:
        with open(path, encoding='utf-8') as f:
            text = f.read()
    except (UnicodeDecodeError, OSError):
        part.count('files_not_utf8')
        return part
    root = os.path.dirname(os.path.dirname(path)) if path.startswith(REPO) else '/nonexistent-c08'
    P = Project([root])
    part.count('evaluations')
    if chunk == 0:
        part.count('files')
    if mode == 'lint':
        cursors = []
    elif mode == 'all':
        cursors = list(all_cursors(text))
    else:
        cursors = list(token_cursors(text))
        if mode.startswith('tokens/'):
            cursors = cursors[::int(mode.split('/')[1])]
    cursors = [c for i, c in enumerate(cursors) if i % nchunks == chunk]
    wit = {'kind': 'file', 'path': path}
    out = run_text(P, text, path, os.path.basename(path), part, cursors, wit) if chunk == 0 or cursors else []
    for sig, what, w in out:
        part.violation(sig, what, w)
    part.outcome(('file', path, chunk))
    return part


def unit_file_typing(arg):
    """typing-state mutations (trailing dot, deleted line, cut file) of a real file: lint + one cursor each"""
    path, chunk, nchunks = arg
    part = Part()
    text = open(path, encoding='utf-8').read()
    root = os.path.dirname(os.path.dirname(path)) if path.startswith(REPO) else '/nonexistent-c08'
    P = Project([root])
    n = 0
    for label, t, cursors in typing_states(text):
        if label == 'line-cut':
            continue
        n += 1
        if n % nchunks != chunk:
            continue
        part.count('evaluations')
        part.count('typing_state_texts')
        for sig, what, wit in run_text(P, t, path, '%s typing state %s' % (os.path.basename(path), label), part, cursors,
                                       {'kind': 'text', 'text': t, 'fn': path, 'root': root}):
            part.violation(sig, what, wit)
    part.outcome(('file-typing', path, chunk))
    return part


def _dispatch(u):
    return u[0](u[1])


def replay(w):
    part = Part()
    if w['kind'] == 'text':
        P = Project([w['root']])
        cursors = [tuple(w['pos'])] if w.get('pos') else []
        res = [(s, wh) for s, wh, _ in run_text(P, w['text'], w['fn'], 'replay', part, cursors, {})]
        if w.get('coarse'):
            res = [('%s:%s:%s' % (s.split(':')[0], w['coarse'][0], w['coarse'][1]) if w['coarse'][0] in s else s, wh) for s, wh in res]
        return res
    if w['kind'] == 'nofile':
        return [(v['sig'], v['what']) for v in unit_nofile(None).violations]
    if w['kind'] == 'project':
        p = unit_project(w['name'])
        return [(v['sig'], v['what']) for v in p.violations]
    if w['kind'] == 'file':
        text = open(w['path'], encoding='utf-8').read()
        root = os.path.dirname(os.path.dirname(w['path'])) if w['path'].startswith(REPO) else '/nonexistent-c08'
        cursors = [tuple(w['pos'])] if w.get('pos') else []
        return [(s, wh) for s, wh, _ in run_text(Project([root]), text, w['path'], os.path.basename(w['path']), part, cursors, {})]
    return []


COMPILED = ['builtins', '_multibytecodec', 'itertools', '_collections', 'array', 'math', 'zlib', '_struct', 'select', '_thread', '_io', 'unicodedata',
            '_datetime', '_decimal', '_json', '_pickle', '_random', '_bisect', '_heapq', '_csv', 'binascii', '_hashlib', 'pyexpat', '_elementtree', '_sqlite3',
            '_lzma', '_bz2', 'mmap', 'grp', 'pwd', '_contextvars', '_asyncio', '_queue', '_statistics', '_zoneinfo', '_opcode', '_uuid', 'atexit',
            'gc', 'marshal', 'posix', 'time', 'sys', '_weakref', '_functools', '_operator', '_abc', '_codecs', '_sre', '_string', '_warnings', 'errno', '_locale',
            '_blake2', '_sha2', '_md5', '_sha1', '_sha3', 'fcntl', 'resource', 'termios', '_posixsubprocess', '_tracemalloc', 'cmath']
# not listed on purpose: _ssl (instantiating its classes without arguments segfaults CPython 3.12.1 in this image), _socket, _ctypes


def runtime_class_texts():
    """`import M` / `M.C().x` for every class of the listed compiled modules: supp instantiates runtime classes
    without arguments to complete on the result, whatever the constructor raises must stay inside"""
    import importlib
    for m in COMPILED:
        try:
            mod = importlib.import_module(m)
        except Exception:
            continue
        names = sorted(k for k, v in vars(mod).items() if isinstance(v, type) and k.isidentifier())
        if not names:
            continue
        lines = ['import %s' % m] + ['%s.%s().x' % (m, k) for k in names]
        yield m, '\n'.join(lines) + '\n', [(i + 2, len(l) - 1) for i, l in enumerate(lines[1:])]


def unit_runtime(item):
    m, text, cursors = item
    part = Part()
    P = Project([nc.PROJECT_DIR])
    part.count('evaluations')
    part.count('texts')
    for sig, what, wit in run_text(P, text, nc.FILE, 'classes of compiled module ' + m, part, cursors, {'kind': 'text', 'text': text, 'fn': nc.FILE, 'root': nc.PROJECT_DIR}):
        part.violation(sig, what, wit)
    part.outcome(('runtime', m))
    return part


def run(ctx):
    ctx.level = 'exploration'
    sys.setrecursionlimit(1000)
    sp = space(ctx.tier)
    step = 10
    units = [(unit_progs, (ctx.tier, lo, min(len(sp), lo + step))) for lo in range(0, len(sp), step)]
    units += [(unit_degenerate, d) for d in DEGENERATE]
    units.append((unit_nofile, None))
    units += [(unit_project, n) for n in sorted(CYCLIC_PROJECTS)]
    units += [(unit_runtime, it) for it in runtime_class_texts()]
    repo = sorted([f for f in corpus.repo_files() if not f.endswith('umsgpack.py')], key=os.path.getsize)
    for i, f in enumerate(repo):
        if ctx.quick:
            mode = 'all' if i < 5 else 'tokens/15'
        else:
            mode = 'all'
        n = max(1, os.path.getsize(f) // (1500 if mode == 'all' else 40000))
        for ch in range(n):
            units.append((unit_file, (f, mode, ch, n)))
    for i, f in enumerate(repo):
        if ctx.quick and i >= 7:
            break
        n = max(1, os.path.getsize(f) // 1200)
        for ch in range(n):
            units.append((unit_file_typing, (f, ch, n)))
    for f in (corpus.stdlib_subset() if ctx.quick else corpus.stdlib_files()):
        units.append((unit_file, (f, 'lint', 0, 1)))
    if not ctx.quick:
        for f in corpus.stdlib_subset():
            n = max(1, os.path.getsize(f) // 20000)
            for ch in range(n):
                units.append((unit_file, (f, 'tokens/3', ch, n)))
    ctx.pmap(_dispatch, ctx.shuffled(units), chunksize=1)
    c = ctx.counters
    ctx.counters['distinct_nontrivial'] = int(c['texts']) + int(c['typing_state_texts']) + int(c['files']) + int(c['cyclic_projects'])
    ctx.coverage.update({
        'rule': 'texts x cursors: every (line, col) of every generated program (control-flow core k<=3%s, every feature alone and next to a leaf), of their typing-state mutations '
                '(trailing dot, deleted line, cut file, line cut at every column), of %d degenerate texts and %d cyclic projects, of the repository files (quick: 5 smallest fully, '
                'larger ones every 15th token boundary); lint on the stdlib %s; distinct_nontrivial = distinct texts' % (
                    ' (every 5th program on quick)' if ctx.quick else '', len(DEGENERATE), len(CYCLIC_PROJECTS), 'subset' if ctx.quick else '(all files) + token cursors on the subset'),
        'lint_calls': int(c['lint_calls']),
        'cursor_calls': int(c['cursor_calls']),
        'texts': int(c['texts']),
        'typing_state_texts': int(c['typing_state_texts']),
        'files': int(c['files']),
    })
    ctx.assumptions += [
        'per-call watchdog of %d s stands for "does not terminate"' % WATCHDOG,
        'the cursor-marked text is the one supp.util.Source builds for the position',
        'expression nesting is bounded by the interpreter recursion limit (1000); project files other than the edited one are valid UTF-8 Python',
    ]
