"""Shared runner machinery: verdict protocol, evidence, known findings, replay, pool.

Every check module ``mc.cXX`` exposes

    run(ctx)              enumerate its bounded space, call ctx.violation(...) / ctx.count(...)
    replay(witness)       re-run exactly one element; return list of (signature, what) it violates

The runner (``mc.run``) owns exit codes and output lines:
    exit 0   property held on everything explored (KNOWN-FINDING lines allowed)
    exit 1   at least one ``VIOLATION property=<id> replay=<path>`` line
    exit 2   harness broken (self-test failed, divergence, crash of the harness itself)
"""
import os
import sys
import json
import time
import hashlib
import collections
import multiprocessing
import random
import signal
import traceback

VERIF = os.path.dirname(os.path.dirname(os.path.abspath(__file__)))
REPO = os.environ.get('SUPP_REPO', '/repo')
NCPU = int(os.environ.get('VERIF_JOBS', '0')) or min(16, os.cpu_count() or 1)


class HarnessError(Exception):
    """The harness itself is unsound/broken: exit 2, never a VIOLATION."""


def stable_hash(obj):
    return hashlib.sha1(json.dumps(obj, sort_keys=True, default=repr).encode()).hexdigest()[:12]


class Part(object):
    """What one work unit (possibly in a worker process) found. Plain data, picklable."""
    leftover = ()

    def __init__(self):
        self.counters = collections.Counter()
        self.violations = []   # dicts: sig, what, witness
        self.samples = []
        self.outcomes = set()  # distinct observation digests (anti-vacuity)
        self.notes = collections.OrderedDict()

    def count(self, key, n=1):
        self.counters[key] += n

    def violation(self, sig, what, witness):
        self.violations.append({'sig': sig, 'what': what, 'witness': witness})

    def sample(self, s, limit=4):
        if len(self.samples) < limit:
            self.samples.append(s)

    def outcome(self, o):
        if len(self.outcomes) < 200000:
            self.outcomes.add(o if isinstance(o, (str, int)) else stable_hash(o))

    def merge(self, other):
        for k, v in other.counters.items():
            if k.startswith('max_'):
                self.counters[k] = max(self.counters[k], v)
            else:
                self.counters[k] += v
        # keep at most a handful of witnesses per signature, all signatures
        per = collections.Counter(v['sig'] for v in self.violations)
        for v in other.violations:
            self.counters['violations_raw'] += 1
            if per[v['sig']] < 3:
                per[v['sig']] += 1
                self.violations.append(v)
        for s in other.samples:
            self.sample(s, 6)
        self.outcomes |= other.outcomes
        for k, v in other.notes.items():
            self.notes.setdefault(k, v)


class Ctx(Part):
    def __init__(self, pid, tier, seed):
        Part.__init__(self)
        self.pid = pid
        self.tier = tier
        self.seed = seed
        self.rng = random.Random(seed)   # only ever used to permute visiting ORDER
        self.t0 = time.time()
        self.coverage = {}
        self.assumptions = []
        self.level = 'exploration'
        self.caps_hit = []

    @property
    def quick(self):
        return self.tier == 'quick'

    def shuffled(self, seq):
        """Seed-dependent visiting order of a fixed, fully visited space."""
        seq = list(seq)
        self.rng.shuffle(seq)
        return seq

    def pool(self, jobs=None):
        return multiprocessing.get_context('fork').Pool(jobs or NCPU)

    def pmap(self, func, units, chunksize=1, jobs=None, collect=None):
        """Run func(unit) -> Part for each unit on a fork pool, merge in unit order."""
        units = list(units)
        jobs = jobs or NCPU
        if jobs <= 1 or len(units) <= 1:
            for u in units:
                part = _guard(func, u)
                if collect:
                    collect(part)
                self.merge(part)
            return
        with multiprocessing.get_context('fork').Pool(jobs) as pool:
            for part in pool.imap(_Guarded(func), units, chunksize):
                if isinstance(part, _WorkerFailure):
                    raise HarnessError('worker failed:\n' + part.tb)
                if collect:
                    collect(part)
                self.merge(part)


class _WorkerFailure(object):
    def __init__(self, tb):
        self.tb = tb


class _Guarded(object):
    def __init__(self, func):
        self.func = func

    def __call__(self, unit):
        return _guard(self.func, unit, reraise=False)


def _guard(func, unit, reraise=True):
    try:
        part = func(unit)
        assert isinstance(part, Part), 'work unit must return a Part'
        return part
    except BaseException:
        if reraise:
            raise
        return _WorkerFailure(traceback.format_exc())


# --------------------------------------------------------------------------- watchdog

class Timeout(BaseException):
    pass


def _alarm(signum, frame):
    raise Timeout()


class watchdog(object):
    """with watchdog(20): call()  -> raises Timeout (a BaseException) on expiry."""

    def __init__(self, seconds):
        self.seconds = seconds

    def __enter__(self):
        self.old = signal.signal(signal.SIGALRM, _alarm)
        signal.setitimer(signal.ITIMER_REAL, self.seconds)

    def __exit__(self, *a):
        signal.setitimer(signal.ITIMER_REAL, 0)
        signal.signal(signal.SIGALRM, self.old)
        return False


# --------------------------------------------------------------------------- known findings

def load_known(pid):
    path = os.path.join(VERIF, 'known_findings.json')
    try:
        data = json.load(open(path))
    except FileNotFoundError:
        return {}
    return {f['signature']: f for f in data.get('findings', []) if f['property'] == pid}


# --------------------------------------------------------------------------- evidence

def write_evidence(ctx, nviol):
    cov = dict(ctx.coverage)
    c = ctx.counters
    cov.setdefault('evaluations', int(c.get('evaluations', 0)))
    cov.setdefault('distinct_nontrivial', int(c.get('distinct_nontrivial', len(ctx.outcomes))))
    cov.setdefault('samples', ctx.samples[:6] or ['(none)'])
    cov.setdefault('distinct_outcomes', len(ctx.outcomes))
    cov.setdefault('exhaustive', not ctx.caps_hit)
    cov['caps_hit'] = ctx.caps_hit
    cov['counters'] = {k: int(v) for k, v in sorted(c.items())}
    for k, v in ctx.notes.items():
        cov.setdefault(k, v)
    ev = {
        'property_id': ctx.pid,
        'tier': ctx.tier,
        'seed': ctx.seed,
        'level': ctx.level,
        'coverage': cov,
        'assumptions': ctx.assumptions,
        'wall_s': round(time.time() - ctx.t0, 2),
        'violations': nviol,
    }
    d = os.path.join(VERIF, 'evidence')
    os.makedirs(d, exist_ok=True)
    tmp = os.path.join(d, ctx.pid + '.json.tmp')
    with open(tmp, 'w') as f:
        json.dump(ev, f, indent=1, sort_keys=True, default=repr)
        f.write('\n')
    os.replace(tmp, os.path.join(d, ctx.pid + '.json'))
    return ev


def write_replay(pid, v):
    d = os.path.join(VERIF, 'replays', pid)
    os.makedirs(d, exist_ok=True)
    body = {'property': pid, 'signature': v['sig'], 'what': v['what'], 'witness': v['witness']}
    path = os.path.join(d, stable_hash([v['sig'], v['witness']]) + '.json')
    with open(path, 'w') as f:
        json.dump(body, f, indent=1, sort_keys=True, default=repr)
        f.write('\n')
    return path


def reset_global_memo():
    """supp keeps one process-global scope of builtins whose name objects memoise what was evaluated through them.
    Every fresh build starts from an empty one; done without knowing the names of the memo cells: the instance
    dict is replaced by that of a newly constructed scope of the same class (identity kept)."""
    import supp.scope as sc
    bs = getattr(sc, 'builtin_scope', None)
    if bs is None:
        return
    try:
        fresh = type(bs)()
    except Exception:
        bs.__dict__.pop('names', None)
        return
    bs.__dict__.clear()
    bs.__dict__.update(fresh.__dict__)


def global_memo():
    """the process-global builtin scope and its table of name objects (None while nothing was resolved)"""
    import supp.scope as sc
    bs = getattr(sc, 'builtin_scope', None)
    names = None
    for v in getattr(bs, '__dict__', {}).values():
        if isinstance(v, dict) and v:
            names = v
            break
    return bs, names
