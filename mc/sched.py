"""Cooperative scheduler over real OS threads for E1.

One runnable thread at a time (per-thread semaphore baton).  A scheduling point occurs
before every source line of every frame whose code lives in one of ``trace_files``
(sys.settrace line events), and at every blocking operation of the fake primitives
(SLock acquire, SThread.join).  Blocking is modelled as *disabled*; no enabled thread
while some thread is unfinished = deadlock.

Choice at a scheduling point: index into the canonical enabled list (running thread first
if still enabled, then ascending thread ids).  Cost of a non-default choice = 1 when the
running thread is still enabled (a preemption), else 0.
"""
import sys
import threading


class SchedAbort(BaseException):
    pass


class Sched(object):
    def __init__(self, ch, trace_files, horizon=20000, state_fn=None, visible=None):
        self.ch = ch
        self.state_fn = state_fn
        self.visible = visible     # optional {(file, line)}: lines touching shared state; others are not scheduling points
        self.trace_files = set(trace_files)
        self.threads = []
        self.cur = None
        self.deadlock = False
        self.aborting = False
        self.steps = 0
        self.horizon = horizon
        self.horizon_hit = False
        self.main_sem = threading.Semaphore(0)
        self.on_timeout = None     # callback(seconds) moving the harness's virtual clock
        self.log = []

    # ---- thread management
    def spawn(self, fn, name):
        info = {'tid': len(self.threads), 'name': name, 'frame': None, 'sem': threading.Semaphore(0), 'done': False,
                'blocked': None, 'exc': None, 'result': None, 'started': False}

        def body():
            info['sem'].acquire()
            if self.aborting:
                info['done'] = True
                return
            sys.settrace(self.tracer)
            try:
                info['result'] = fn()
            except SchedAbort:
                info['exc'] = None
                info['aborted'] = True
            except BaseException as e:   # noqa
                info['exc'] = e
            finally:
                sys.settrace(None)
                info['done'] = True
                if not self.aborting:
                    self.switch(info, finishing=True)

        th = threading.Thread(target=body, daemon=True)
        info['th'] = th
        self.threads.append(info)
        th.start()
        return info

    def enabled(self):
        out = []
        for t in self.threads:
            if t['done']:
                continue
            b = t['blocked']
            if b is None or b():
                out.append(t['tid'])
        return out

    def tracer(self, frame, event, arg):
        if frame.f_code.co_filename not in self.trace_files:
            return None
        if event == 'line':
            me = self.cur
            me['frame'] = frame
            if self.visible is not None and (frame.f_code.co_filename, frame.f_lineno) not in self.visible:
                return self.tracer
            self.log.append((me['tid'], frame.f_code.co_name, frame.f_lineno))
            self.switch(me, label=(frame.f_code.co_name, frame.f_lineno))
        return self.tracer

    def abort_all(self):
        self.aborting = True
        for t in self.threads:
            if not t['done']:
                t['sem'].release()

    def switch(self, me, finishing=False, label=None):
        if self.aborting:
            if finishing:
                return
            raise SchedAbort()
        self.steps += 1
        if self.steps > self.horizon:
            self.horizon_hit = True
            self.abort_all()
            self.main_sem.release()
            if not finishing:
                raise SchedAbort()
            return
        en = self.enabled()
        if not en:
            if all(t['done'] for t in self.threads):
                self.main_sem.release()
                return
            self.deadlock = True
            self.abort_all()
            self.main_sem.release()
            if not finishing:
                raise SchedAbort()
            return
        if me['tid'] in en:
            en.remove(me['tid'])
            en.insert(0, me['tid'])
            still = True
        else:
            still = False
        if len(en) > 1:
            if self.state_fn is not None:
                label = (label, self.state_fn(self, me))
            c = self.ch.choose(len(en), 1 if still else 0, (me['tid'], label))
        else:
            c = 0
        nxt = self.threads[en[c]]
        if nxt is me:
            return
        self.cur = nxt
        nxt['sem'].release()
        if not finishing:
            me['sem'].acquire()
            if self.aborting:
                raise SchedAbort()

    def timed_out(self, me, timeout, what):
        """a wait with a timeout on something that has not happened yet: whether the timeout elapses first is the
        environment's choice (a deviation); the virtual clock moves on by the timeout when it does"""
        if self.ch.choose(2, 1, (me['tid'], 'timeout-' + what)) == 1:
            if self.on_timeout is not None:
                self.on_timeout(timeout)
            return True
        return False

    def block_until(self, me, cond):
        me['blocked'] = cond
        while not cond():
            self.switch(me, label='blocked')
        me['blocked'] = None

    def run(self):
        """Start: the initial choice of which thread runs first is a cost-0 choice point."""
        en = self.enabled()
        c = self.ch.choose(len(en), 0, 'start') if len(en) > 1 else 0
        self.cur = self.threads[en[c]]
        self.cur['sem'].release()
        self.main_sem.acquire()
        for t in self.threads:
            t['th'].join(5)
            if t['th'].is_alive():
                raise RuntimeError('scheduler: thread %s did not terminate' % t['name'])


class SLock(object):
    def __init__(self, s):
        self.s = s
        self.owner = None

    def acquire(self, blocking=True, timeout=-1):
        me = self.s.cur
        if self.owner is not None:
            if not blocking:
                return False
            if timeout is not None and timeout >= 0 and self.s.timed_out(me, timeout, 'lock'):
                return False
        self.s.block_until(me, lambda: self.owner is None)
        self.owner = me['tid']
        return True

    def locked(self):
        return self.owner is not None

    def release(self):
        self.owner = None

    def __enter__(self):
        self.acquire()

    def __exit__(self, *a):
        self.release()


class SThread(object):
    def __init__(self, s, target=None, name='starter', args=(), kwargs=None, daemon=None):
        self.s = s
        self.target = target
        self.args = args
        self.kwargs = kwargs or {}
        self.info = None
        self.name = name
        self.daemon = daemon

    def start(self):
        self.info = self.s.spawn(lambda: self.target(*self.args, **self.kwargs), self.name)

    def join(self, timeout=None):
        if self.info is None:
            raise RuntimeError('cannot join thread before it is started')
        me = self.s.cur
        if timeout is not None and not self.info['done'] and self.s.timed_out(me, timeout, 'join'):
            return          # the timeout elapsed first: the thread is still running
        self.s.block_until(me, lambda: self.info['done'])

    def is_alive(self):
        return self.info is not None and not self.info['done']
