"""C11 - every reported position points at the identifier it names.

E3: every binding of the corpus on ASCII-only lines, and generated sources = binding kinds x layout
features x wrappers (all combinations).  For each (name, declared_at) from SourceScope.all_names,
each lint W01/W02 and each location() result: the line exists, a NAME token equal to the identifier
starts at that column (for `except ... as name`: the token `except` of that clause), and the entry
points agree on the position of the same binding.
"""
import ast
import io
import os
import re
import tokenize
import itertools
import collections

from .common import Part, watchdog
from . import corpus

from supp.util import Source, get_name_usages, np
from supp.nast import extract_scope
from supp.linter import lint
from supp.assistant import location
from supp.project import Project
from supp.name import ImportedName

P = Project(['/nonexistent-c11'])


def name_tokens(text):
    toks = {}
    try:
        for t in tokenize.generate_tokens(io.StringIO(text).readline):
            if t.type == tokenize.NAME:
                toks[(t.start[0], t.start[1])] = t.string
    except (tokenize.TokenError, IndentationError, SyntaxError):
        pass
    return toks


def handler_positions(tree):
    out = {}
    for n in ast.walk(tree):
        if isinstance(n, ast.ExceptHandler) and n.name:
            out.setdefault((n.lineno, n.col_offset), set()).add(n.name)
    return out


def check_pos(text, lines, toks, handlers, name, pos, who):
    """-> None or (sig-suffix, what)"""
    ln, col = pos
    if not (1 <= ln <= len(lines)):
        return ('line-outside-file', '%s reports `%s` at %s but the file has %d lines' % (who, name, pos, len(lines)))
    line = lines[ln - 1]
    if not line.isascii():
        return 'skip'
    tok = toks.get((ln, col))
    if tok == name:
        return None
    if tok == 'except' and name in handlers.get((ln, col), ()):
        return None
    return ('not-the-identifier', '%s reports `%s` at %s but the text there is %r (line: %r)' % (who, name, pos, line[col:col + len(name) + 3], line.strip()[:80]))


def binding_kind(name):
    return type(name).__name__


def check_text(text, fn, label, part, with_location=False):
    out = []
    try:
        tree = ast.parse(text)
    except (SyntaxError, RecursionError):
        part.count('skipped_unparsable')
        return out
    lines = text.splitlines()
    toks = name_tokens(text)
    handlers = handler_positions(tree)
    s = Source(text, fn)
    try:
        with watchdog(120):
            scope = extract_scope(s, P)
            L = lint(P, text, fn)
    except Exception:
        part.count('analysis_crashes')     # C08's business
        return out
    seen = set()

    def report(kind, r):
        if r is None or r == 'skip':
            if r == 'skip':
                part.count('positions_on_non_ascii_lines_skipped')
            return
        sig = '%s:%s' % (r[0], kind)
        if sig not in seen:
            seen.add(sig)
            out.append((sig, '%s: %s' % (label, r[1])))

    decl = collections.defaultdict(set)
    for flow, name in scope.all_names:
        if getattr(name, 'is_star', False):
            part.count('star_imported_names_skipped')
            continue
        if not hasattr(name, 'declared_at'):
            continue
        part.count('bindings')
        decl[name.name].add(tuple(name.declared_at))
        report('all_names:' + binding_kind(name), check_pos(text, lines, toks, handlers, name.name, tuple(name.declared_at), 'all_names (%s)' % binding_kind(name)))
    for x in L:
        if x[0] in ('W01', 'W02'):
            nm = x[1].split(': ')[1]
            part.count('lint_positions')
            report('lint:' + x[0], check_pos(text, lines, toks, handlers, nm, (x[2], x[3]), 'lint %s' % x[0]))
            if (x[2], x[3]) not in decl.get(nm, ()):
                report('lint:' + x[0], ('entry-points-disagree', 'lint reports `%s` at %s, all_names has it at %s' % (nm, (x[2], x[3]), sorted(decl.get(nm, ())))))
    if with_location:
        for n in get_name_usages(s.tree):
            if n.id not in decl:
                continue
            try:
                with watchdog(60):
                    locs = location(P, text, (n.lineno, n.col_offset + len(n.id)), fn)
            except Exception:
                part.count('location_crashes')
                continue
            flat = []
            for l in locs:
                flat += l if isinstance(l, list) else [l]
            for l in flat:
                if l.get('file') != fn:
                    continue
                part.count('location_positions')
                pos = tuple(l['loc'])
                report('location', check_pos(text, lines, toks, handlers, n.id, pos, 'location() from %s' % (np(n),)))
                if pos not in decl[n.id]:
                    report('location', ('entry-points-disagree', 'location() from the read at %s reports `%s` at %s, all_names has it at %s' % (
                        np(n), n.id, pos, sorted(decl[n.id]))))
    return out


# ------------------------------------------------------------------ generated layouts

BIND = collections.OrderedDict([
    ('assign', 'nm = 1'),
    ('assign-spaces', 'nm   =   1'),
    ('chained', 'nm = nm2 = 1'),
    ('tuple', 'xnm, nm = 1, 2'),
    ('nested-tuple', '(nmx, (nm, *rest)) = 1, (2, 3)'),
    ('starred', '*nm, last = [1, 2]'),
    ('ann', 'nm: int = 1'),
    ('walrus', '(nm := 1)'),
    ('aug-after', 'nm = 1; nm += 1'),
    ('for', 'for nm in [1]: pass'),
    ('for-tuple', 'for xnm, (nm, nmx) in [(1, (2, 3))]: pass'),
    ('async-for-in-async-def', None),
    ('with', 'with open("nm") as nm: pass'),
    ('with-two', 'with open("a") as nmx, open("nm") as nm: pass'),
    ('except', 'try: pass\nexcept Exception as nm: pass'),
    ('except-two', 'try: pass\nexcept KeyError as nmx: pass\nexcept Exception as nm: pass'),
    ('comp', 'r = [nm for nm in [1]]'),
    ('comp-two', 'r = [nm for xnm in [1] for nm in [xnm]]'),
    ('dictcomp', 'r = {nm: 1 for nm in [1]}'),
    ('lambda', 'r = lambda nmx, nm=1, *a, **k: nm'),
    ('def', 'def nm(): pass'),
    ('def-spaces', 'def   nm  (a, b): pass'),
    ('def-decorated', '@staticmethod\ndef nm(): pass'),
    ('def-decorated-named-like', '@nmdeco\n@nm2\ndef nm(): pass'),
    ('async-def', 'async def nm(): pass'),
    ('class', 'class nm: pass'),
    ('class-decorated', '@nmdeco\nclass nm(object): pass'),
    ('class-bases-named-like', 'class nm(nmbase, xnm): pass'),
    ('param', 'def f(nmx, nm, *nmargs, nmk=nm2, **nmkw): pass'),
    ('param-annotated', 'def f(a: nm2, nm: int = 0) -> nmx: pass'),
    ('import', 'import nm'),
    ('import-multi', 'import xnm, nm, nmx'),
    ('import-dotted', 'import nm.sub.nm'),
    ('import-as-module-name', 'import nm as nm'),
    ('import-as', 'import os.nm as nm'),
    ('import-as-earlier', 'import nm2 as xnm, xnm as nm'),
    ('from', 'from mod import nm'),
    ('from-multi', 'from mod import xnm, nm, nmx'),
    ('from-as-member', 'from nm import nm as nm'),
    ('from-as', 'from mod.nm import nmx as nm'),
    ('from-paren', 'from mod import (xnm,\n    nm,\n    nmx as other)'),
    ('from-paren-as', 'from mod import (nmx as a,\n                 other as nm)'),
    ('from-backslash', 'from mod import xnm, \\\n    nm'),
    ('from-relative', 'from . import nm'),
    ('from-relative-as', 'from ..nm import nm2 as nm'),
    ('import-as-two-spaces', 'import os  as  nm'), ('import-as-tab', 'import os as\tnm'), ('import-as-backslash', 'import os as \\\n    nm'),
    ('from-as-aligned', 'from mod import (xnm      as a,\n                 longername as nm)'), ('from-as-newline', 'from mod import (other as\n    nm)'),
    ('from-then-comment', 'from mod import nm# nm is needed'), ('import-then-backslash', 'import xnm, nm\\\n  , nmx'),
    ('import-comment-in-list', 'from mod import (  # nm first\n    xnm,\n    nm,  # nm\n)'),
    ('def-far', 'def \\\n \\\n \\\n \\\n \\\n \\\n    nm(nm2=0): pass'), ('class-far', 'class \\\n \\\n \\\n \\\n \\\n \\\n    nm(object): nm3 = 1'),
    ('async-def-far', 'async \\\n \\\n def \\\n \\\n \\\n \\\n    nm(): pass'),
    ('def-far-col0', 'def \\\n\\\n\\\n\\\n\\\nnm(a=nm2): nm3 = 1'), ('class-far-col0', 'class \\\n\\\n\\\n\\\n\\\nnm(object): nm3 = 1'),
    ('def-tab', 'def\tnm(): pass'), ('class-tab', 'class\tnm: pass'), ('def-backslash', 'def \\\n    nm(): pass'), ('class-two-spaces', 'class  nm  (object)  : pass'),
    ('async-def-short-name', 'async def d(): pass\nd'), ('async-def-prefix-name', 'async def de(): pass\nde'), ('class-prefix-name', '@nmdeco\nclass cl: pass\ncl'),
    ('def-type-params', 'def nm[T](a: T) -> T: return a'), ('class-type-params', 'class nm[T]: pass'),
    ('lambda-star', 'r = lambda *nm, **nmx: nm'), ('kwonly', 'def f(*, nmx, nm=1): return nm'), ('posonly', 'def f(nm, /, nmx): return nm'),
    ('except-group', 'try: pass\nexcept* ValueError as nm: pass'), ('with-paren', 'with (open("a") as nmx, open("b") as nm): pass'),
    ('walrus-in-comp', 'r = [nm for q in [1] if (nm := q)]'), ('match-capture', 'match nm2:\n    case [nm, *xnm]: pass\n    case {"k": nmx}: pass'),
    ('after-formfeed-line', 'zz = 0\n\x0c\nnm = 1'), ('after-formfeed-in-string', 'zz = "a\x0cb"\nnm = 1'), ('after-ls-in-comment', 'zz = 0  # \u2028\nnm = 1'),
    ('global-assign', 'def g():\n    global nm\n    nm = 1'),
])

WRAP = collections.OrderedDict([
    ('top', lambda s: s),
    ('after-semicolon', lambda s: None if '\n' in s or s.startswith(('def', 'class', 'for', 'with', 'try', '@', 'async')) else 'zz = 0; ' + s),
    ('before-semicolon', lambda s: None if '\n' in s or s.startswith(('def', 'class', 'for', 'with', 'try', '@', 'async')) else s + '; zz = nm2'),
    ('in-function', lambda s: 'def outer(nm2=0, nmdeco=0, nmbase=object, xnm=0):\n' + indent(s, 4) + '\n    return nm'),
    ('in-class', lambda s: 'class Outer:\n' + indent(s, 4)),
    ('in-if-else', lambda s: 'if 1:\n    pass\nelse:\n' + indent(s, 8 - 4)),
    ('deep', lambda s: 'class O:\n    def m(self):\n        while 1:\n' + indent(s, 12)),
    ('tab-indented', lambda s: 'def outer():\n' + indent(s, 0, '\t')),
    ('after-comment-with-name', lambda s: '# nm = nm nm\nx = "nm nm"  # nm\n' + s),
    # several alternative definitions of one read, one of them further right on the line of the read (loop back edge)
    ('loop-read-left-of-binding', lambda s: None if '\n' in s or s.startswith(('def', 'class', 'for', 'with', 'try', '@', 'async')) else 'nm = 0\nwhile nm2: print(nm); ' + s),
    ('for-read-left-of-binding', lambda s: None if '\n' in s or s.startswith(('def', 'class', 'for', 'with', 'try', '@', 'async')) else 'def lp(nm=0):\n    for q in nm2: print(nm); ' + s + '\n    return nm'),
    ('read-same-line', lambda s: None if '\n' in s or s.startswith(('def', 'class', 'for', 'with', 'try', '@', 'async', 'import', 'from')) else s + '; nm'),
])


def indent(s, n, ch=None):
    pad = ch if ch else ' ' * n
    return '\n'.join(pad + l for l in s.split('\n'))


def gen_cases():
    for b, src in BIND.items():
        if src is None:
            continue
        for w, fn in WRAP.items():
            t = fn(src)
            if t is None:
                continue
            text = 'nm2 = xnm = nmdeco = nmbase = 0\n' + t + '\nnm\n'
            try:
                ast.parse(text)
            except SyntaxError:
                continue
            yield ('%s/%s' % (b, w), text)


def unit_gen(arg):
    lo, hi = arg
    part = Part()
    for label, text in list(gen_cases())[lo:hi]:
        part.count('evaluations')
        part.count('generated_sources')
        for sig, what in check_text(text, '/gen/x.py', label, part, with_location=True):
            part.violation(sig + ':' + label.split('/')[0], what + '\n--- source ---\n' + text, {'kind': 'text', 'text': text, 'label': label})
        part.outcome(label)
        if label in ('from-paren/in-function', 'comp/read-same-line'):
            part.sample({'case': label, 'source': text}, limit=3)
    return part


def unit_file(arg):
    path, with_loc = arg
    part = Part()
    text = corpus.read(path)
    if text is None:
        part.count('files_skipped')
        return part
    part.count('evaluations')
    part.count('files')
    for sig, what in check_text(text, path, os.path.basename(path), part, with_location=with_loc):
        part.violation(sig, what, {'kind': 'file', 'path': path, 'loc': with_loc})
    part.outcome(path)
    return part


PROJECT_TEXTS = [
    'import pk.sub\npk.sub\npk.sub.s1\npk\n', 'import pk.sub as ps\nps.s1\nps\n', 'import m1\nm1.K1\nm1.K1.attr\nm1.fn1\n',
    'from pk import sub\nsub.s2\nsub\n', 'from pk import *\ns1\np0\n', 'import os.path\nos.path\nos.path.join\nos\n', 'import mstar2\nmstar2.x1\nmstar2.zz2\n',
]


SELF_TEXTS = [
    # the edited file imports itself: the definition comes from the copy on disk (parsed without the cursor mark)
    'import selfmod; print(selfmod.x); x = 1\n',
    'import selfmod\nprint(selfmod.x, selfmod.fn); x = 1\ndef fn(): pass\n',
    'from selfmod import x as y; print(y); x = 1\n',
    'import selfmod as s\nclass K:\n    a = 1\nprint(s.K.a); K.b = 2; print(s.K.b)\n',
]


def _project_texts(part):
    from . import namecheck as nc
    Pg = Project([nc.PROJECT_DIR])
    fn = os.path.join(nc.PROJECT_DIR, 'x.py')
    for text in PROJECT_TEXTS:
        yield Pg, fn, text
    import shutil
    import tempfile
    d = tempfile.mkdtemp(prefix='c11_self_')
    try:
        fn = os.path.join(d, 'selfmod.py')
        for text in SELF_TEXTS:
            with open(fn, 'w') as f:
                f.write(text)
            yield Project([d]), fn, text
    finally:
        shutil.rmtree(d, ignore_errors=True)


_ALIASES = {}


def aliases(project, text):
    """(original, alias) pairs of every `import a as b` / `from m import a as b` in the buffer and the project's files:
    go-to-definition follows an alias to the original binding, whose identifier is the original name"""
    out = set()
    key = tuple(project.sources)
    if key not in _ALIASES:
        acc = set()
        for root in project.sources:
            for dp, _dn, fns in os.walk(root):
                for f in fns:
                    if f.endswith('.py'):
                        try:
                            acc |= _alias_pairs(open(os.path.join(dp, f), encoding='utf-8').read())
                        except (SyntaxError, ValueError, OSError):
                            pass
        _ALIASES[key] = acc
    return _ALIASES[key] | _alias_pairs(text)


def _alias_pairs(text):
    out = set()
    for n in ast.walk(ast.parse(text)):
        if isinstance(n, (ast.Import, ast.ImportFrom)):
            for a in n.names:
                if a.asname:
                    out.add((a.name.split('.')[-1], a.asname))
    return out


def unit_project_positions(_):
    """go-to-definition through imports: every result must name an existing line of an existing file, and the
    identifier asked for (or the start of the file, for a module) must be there"""
    part = Part()
    for Pg, fn, text in _project_texts(part):
        part.count('evaluations')
        tree = ast.parse(text)
        for n in ast.walk(tree):
            if isinstance(n, (ast.Name, ast.Attribute)) and isinstance(n.ctx, ast.Load):
                pos = (n.end_lineno, n.end_col_offset)
                ident = n.id if isinstance(n, ast.Name) else n.attr
                try:
                    locs = location(Pg, text, pos, fn)
                except Exception:
                    part.count('location_crashes')
                    continue
                flat = []
                for l in locs:
                    flat += l if isinstance(l, list) else [l]
                for l in flat:
                    part.count('location_positions')
                    f, (ln, col) = l.get('file'), tuple(l['loc'])
                    src = text if f == fn else (open(f, encoding='utf-8').read() if f and os.path.exists(f) else None)
                    w = {'kind': 'project-text', 'text': text}
                    if src is None:
                        part.violation('file-does-not-exist:location:through-import', 'location() at %s in %r names the file %r' % (pos, text, f), w)
                        continue
                    lines = src.split('\n')
                    if not (1 <= ln <= len(lines)) or col < 0:
                        part.violation('line-outside-file:location:through-import', 'location() at %s in %r reports (%d, %d) in %s which has %d lines' % (
                            pos, text, ln, col, os.path.basename(f), len(lines)), w)
                        continue
                    if (ln, col) == (1, 0):
                        continue               # a module: start of its file
                    rest = lines[ln - 1][col:]
                    m = re.match(r'[^\W\d]\w*', rest)
                    if rest.startswith('*'):
                        continue               # a name bound by a star import: the statement has no identifier for it
                    if not m:
                        part.violation('not-an-identifier:location:through-import', 'location() at %s in %r reports (%d, %d) in %s, where the text is %r' % (
                            pos, text, ln, col, os.path.basename(f), rest[:20]), w)
                    elif m.group(0) != ident and (m.group(0), ident) not in aliases(Pg, text):
                        part.violation('other-identifier:location:through-import', 'location() for %r at %s in %r reports (%d, %d) in %s, where the identifier is %r' % (
                            ident, pos, text, ln, col, os.path.basename(f), m.group(0)), w)
    part.outcome('project-positions')
    return part


def _dispatch(u):
    return u[0](u[1])


def replay(w):
    p = Part()
    if w['kind'] == 'project-text':
        return [(v['sig'], v['what']) for v in unit_project_positions(None).violations]
    if w['kind'] == 'text':
        return [(s + ':' + w['label'].split('/')[0], wh) for s, wh in check_text(w['text'], '/gen/x.py', w['label'], p, with_location=True)]
    return check_text(corpus.read(w['path']), w['path'], os.path.basename(w['path']), p, with_location=w.get('loc', False))


def run(ctx):
    ctx.level = 'exploration'
    n = sum(1 for _ in gen_cases())
    units = [(unit_gen, (lo, min(n, lo + 20))) for lo in range(0, n, 20)]
    small_repo = sorted(corpus.repo_files(), key=os.path.getsize)[:8]
    for f in corpus.files(ctx.tier):
        # location() on every read is expensive: small repository files (all repository files on thorough)
        with_loc = f in small_repo or (not ctx.quick and f in corpus.repo_files())
        units.append((unit_file, (f, with_loc)))
    units.append((unit_project_positions, None))
    ctx.pmap(_dispatch, ctx.shuffled(units), chunksize=1)
    c = ctx.counters
    ctx.counters['distinct_nontrivial'] = int(c['generated_sources']) + int(c['files'])
    ctx.coverage.update({
        'rule': 'generated: %d binding kinds x %d wrappers (all valid combinations) with location() from every read; corpus: every binding of every file '
                '(all_names + lint positions; location() from every read for the small repository files); distinct_nontrivial = sources checked' % (len(BIND), len(WRAP)),
        'bindings': int(c['bindings']),
        'lint_positions': int(c['lint_positions']),
        'location_positions': int(c['location_positions']),
        'generated_sources': int(c['generated_sources']),
        'files': int(c['files']),
    })
    ctx.assumptions += [
        'tokenize decides what text is at a position; positions on non-ASCII lines are skipped (counted) as the property says',
        'names copied by a star import have no identifier of their own in the text and are skipped (counted)',
        'landing on a different occurrence of the same spelling is not flagged (the statement does not forbid it)',
    ]
