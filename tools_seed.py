#!/usr/bin/env python3
"""Evaluate one seeded change:  tools_seed.py <PROP> <k> [--checks C01,C02] [--tier quick]

Inputs: /tmp/mut_out/<PROP>/patch<k>.diff, demo<k>.py, notes.md; scratch worktree /tmp/mut/<PROP>.
1. in the scratch worktree: demo passes on the pristine tree, patch applies, the 175 tests pass, demo fails
2. applies the patch to /repo, runs the listed checks (default: the property's own), undoes it
3. with --keep: stores /verif/seeded/<PROP>-<k>/{patch.diff,demo.py,meta.json}
"""
import argparse
import json
import os
import re
import shutil
import subprocess
import sys
import time

PY = '/venv/bin/python'
REPO = os.environ.get('SEED_REPO', '/repo')      # the checkout patches are applied to (a scratch worktree for background re-evaluation)
VERIF = os.environ.get('SEED_VERIF', '/verif')


def sh(cmd, cwd=None, timeout=3600, env=None):
    r = subprocess.run(cmd, cwd=cwd, shell=isinstance(cmd, str), capture_output=True, text=True, timeout=timeout, env=env)
    return r.returncode, (r.stdout + r.stderr)


def restored(a):
    d = os.path.abspath(a.stored.rstrip('/'))
    meta = json.load(open(os.path.join(d, 'meta.json')))
    patch = os.path.join(d, 'patch.diff')
    rc, out = sh('git status --porcelain', cwd=REPO)
    if out.strip():
        print(REPO + ' is dirty, refusing')
        return 1
    rc, out = sh('git apply %s' % patch, cwd=REPO)
    if rc:
        print('PATCH DOES NOT APPLY', d)
        meta['applies_to_head'] = False
        json.dump(meta, open(os.path.join(d, 'meta.json'), 'w'), indent=1)
        return 1
    try:
        checks = (a.checks or ','.join(meta.get('detected_by') or [meta['property']])).split(',')
        for c in checks:
            t = time.time()
            rc, out = sh(['./check', c, '--tier', a.tier], cwd=VERIF, timeout=7200, env=dict(os.environ, SUPP_REPO=REPO))
            sigs = re.findall(r'signature: (.*)', out)
            meta.setdefault('checks', {})[c] = {'exit': rc, 'signatures': sigs[:12], 'wall_s': round(time.time() - t, 1)}
            print('%s check %s: exit %d  %d signatures  %.0fs' % (os.path.basename(d), c, rc, len(sigs), time.time() - t))
    finally:
        sh('git checkout -- .', cwd=REPO)
    meta['applies_to_head'] = True
    meta['detected_by'] = sorted(c for c, r in meta['checks'].items() if r['exit'] == 1)
    json.dump(meta, open(os.path.join(d, 'meta.json'), 'w'), indent=1)
    return 0


def main():
    ap = argparse.ArgumentParser()
    ap.add_argument('prop')
    ap.add_argument('k')
    ap.add_argument('--checks', default=None)
    ap.add_argument('--tier', default='quick')
    ap.add_argument('--keep', action='store_true')
    ap.add_argument('--skip-scratch', action='store_true')
    ap.add_argument('--stored', help='re-evaluate a stored seed directory (seeded/<name>): uses its patch.diff, updates its meta.json')
    a = ap.parse_args()
    prop, k = a.prop.upper(), a.k
    if a.stored:
        return restored(a)
    src = (os.environ.get('SEED_SRC') or '/tmp/mut_out') + '/%s' % prop
    wt = os.environ.get('SEED_WT') or '/tmp/mut/%s' % prop
    patch = os.path.join(src, 'patch%s.diff' % k)
    demo = os.path.join(src, 'demo%s.py' % k)
    meta = {'property': prop, 'seed': k, 'ran': []}
    env = dict(os.environ, PYTHONDONTWRITEBYTECODE='1', PYTHONPATH=wt)
    if not a.skip_scratch:
        sh('git checkout -- .', cwd=wt)
        rc, out = sh([PY, demo], cwd=wt, env=env, timeout=600)
        meta['demo_on_pristine'] = rc
        print('demo on pristine worktree: exit', rc)
        rc, out = sh('git apply %s' % patch, cwd=wt)
        if rc:
            print('PATCH DOES NOT APPLY', out)
            return 1
        rc, out = sh([PY, '-m', 'pytest', '-q', '-p', 'no:cacheprovider', '-x'], cwd=wt, env=env, timeout=1200)
        tail = out.strip().splitlines()[-1] if out.strip() else ''
        meta['tests_with_patch'] = tail
        print('tests with patch:', tail)
        rc, out = sh([PY, demo], cwd=wt, env=env, timeout=600)
        meta['demo_with_patch'] = rc
        print('demo with patch: exit', rc, '|', out.strip().splitlines()[-1][:200] if out.strip() else '')
        sh('git checkout -- .', cwd=wt)
        ok = meta['demo_on_pristine'] == 0 and meta['demo_with_patch'] != 0 and re.search(r'\b175 passed', tail)
        meta['confirmed'] = bool(ok)
        print('CONFIRMED' if ok else 'NOT CONFIRMED')
    # run checks against /repo with the patch applied
    rc, out = sh('git status --porcelain', cwd=REPO)
    if out.strip():
        print(REPO + ' is dirty, refusing')
        return 1
    rc, out = sh('git apply %s' % patch, cwd=REPO)
    if rc:
        print('patch does not apply to ' + REPO, out)
        return 1
    results = {}
    try:
        checks = (a.checks or prop).split(',')
        for c in checks:
            t = time.time()
            rc, out = sh(['./check', c, '--tier', a.tier], cwd=VERIF, timeout=7200, env=dict(os.environ, SUPP_REPO=REPO))
            sigs = re.findall(r'signature: (.*)', out)
            results[c] = {'exit': rc, 'signatures': sigs[:12], 'wall_s': round(time.time() - t, 1)}
            print('check %s: exit %d  %d signatures  %.0fs' % (c, rc, len(sigs), time.time() - t))
            for s in sigs[:6]:
                print('     ', s)
            meta['ran'].append('./check %s --tier %s -> exit %d' % (c, a.tier, rc))
    finally:
        sh('git checkout -- .', cwd=REPO)
    meta['checks'] = results
    meta['detected_by'] = sorted(c for c, r in results.items() if r['exit'] == 1)
    if a.keep:
        d = VERIF + '/seeded/%s-%s%s' % (prop, os.environ.get('SEED_TAG', ''), k)
        os.makedirs(d, exist_ok=True)
        shutil.copy(patch, os.path.join(d, 'patch.diff'))
        shutil.copy(demo, os.path.join(d, 'demo.py'))
        notes = os.path.join(src, 'notes.md')
        if os.path.exists(notes):
            meta['needs_to_manifest'] = open(notes).read()[:3000]
        old = {}
        if os.path.exists(os.path.join(d, 'meta.json')):
            old = json.load(open(os.path.join(d, 'meta.json')))
            old_checks = old.get('checks', {})
            old_checks.update(meta['checks'])
            meta['checks'] = old_checks
            meta['detected_by'] = sorted(c for c, r in meta['checks'].items() if r['exit'] == 1)
            for key in ('demo_on_pristine', 'tests_with_patch', 'demo_with_patch', 'confirmed'):
                if key not in meta and key in old:
                    meta[key] = old[key]
            meta['ran'] = old.get('ran', []) + meta['ran']
        json.dump(meta, open(os.path.join(d, 'meta.json'), 'w'), indent=1)
        print('kept in', d)
    return 0


if __name__ == '__main__':
    sys.exit(main())
